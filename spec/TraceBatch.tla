----------------------------- MODULE TraceBatch -----------------------------
(***************************************************************************)
(* Shared machinery for validating a BATCH of recorded traces in one TLC   *)
(* run (JVM start dominates the cost of a single trace).                   *)
(*                                                                         *)
(* The file named by the environment variable TRACE_FILE holds a JSON list *)
(* of traces; each trace is a record with at least a field `events`, a     *)
(* list of records with a field `e` (the event name).  The initial         *)
(* predicate of a trace specification picks tid \in 1..NT (one initial     *)
(* state per trace), so every trace is explored independently.             *)
(*                                                                         *)
(* Verdicts are total and per trace: TLC registers (TLCSet/TLCGet, hence   *)
(* -workers 1) hold, for trace t,                                          *)
(*   register t        : furthest position reached                         *)
(*   register NT + t   : printable spec state there (diagnosis)            *)
(*   register 2NT + t  : <<"ok", 0>> or <<name of first violated           *)
(*                       invariant, position>>                             *)
(* and the POSTCONDITION Report prints them as JSON lines.                 *)
(***************************************************************************)
EXTENDS Integers, Sequences, TLC, Json, IOUtils, TLCExt

Traces == JsonDeserialize(IOEnv.TRACE_FILE)
NT == Len(Traces)

VARIABLES tid, l

T == Traces[tid]
Ev == T.events[l]
NEv == Len(T.events)

BatchInit == /\ tid \in 1..NT
             /\ l = 1
             /\ TLCSet(tid, 1) /\ TLCSet(NT + tid, "init") /\ TLCSet(2 * NT + tid, <<"ok", 0>>)

IsEvent(e) == l <= NEv /\ Ev.e = e /\ l' = l + 1 /\ tid' = tid

\* to be conjoined into a CONSTRAINT: remembers the furthest point reached and what the spec state was there
Progress(desc) == (l > TLCGet(tid)) => (TLCSet(tid, l) /\ TLCSet(NT + tid, desc))

\* records the first violated invariant of this trace; the inherited initial state (l = 1) is judged
\* only when judgeInit is TRUE
Check(name, inv, judgeInit) == \/ (l = 1 /\ ~judgeInit) \/ inv \/ TLCGet(2 * NT + tid)[1] # "ok"
                               \/ TLCSet(2 * NT + tid, <<name, l>>)
OkSoFar == TLCGet(2 * NT + tid)[1] = "ok"

Report == /\ PrintT("JSON " \o ToJson([reached |-> [t \in 1..NT |-> TLCGet(t)]]))
          /\ \A t \in 1..NT : (TLCGet(2 * NT + t)[1] # "ok") =>
                 PrintT("JSON " \o ToJson([violated |-> t, inv |-> TLCGet(2 * NT + t)[1], at |-> TLCGet(2 * NT + t)[2],
                                           state |-> ToString(TLCGet(NT + t))]))
          /\ \A t \in 1..NT : (TLCGet(2 * NT + t)[1] = "ok" /\ TLCGet(t) <= Len(Traces[t].events)) =>
                 PrintT("JSON " \o ToJson([stuck |-> t, at |-> TLCGet(t), state |-> ToString(TLCGet(NT + t))]))
=============================================================================
