------------------------------ MODULE CacheGen ------------------------------
(***************************************************************************)
(* Generator for leg R of C19: Cache extended with a history variable that *)
(* records every fault (kill, torn write, exception unwinding through the  *)
(* `with` block, repeated call) by NAME - the control state it hit, the    *)
(* file being written and how much of it had landed - together with the    *)
(* directory and the number of network requests the specification expects  *)
(* right after it.  When the behaviour completes (pc = "done") the whole   *)
(* schedule is printed; the driver then makes the real maybe_download /    *)
(* maybe_lzma_decompress fail at exactly those named points and compares   *)
(* the real directory with the expected one after every fault and at the   *)
(* end.  The generator follows the order in which the pinned code opens    *)
(* the output and issues the request (Cache itself allows both; leg T      *)
(* accepts both).  History variables multiply states: small constants      *)
(* only; the properties are checked on Cache.                              *)
(***************************************************************************)
EXTENDS Cache, Json

VARIABLE sched
gvars == <<vars, sched>>

DirNow == [n \in {m \in DOMAIN fs : fs[m].exists} |-> fs[n]]
\* the next write effect at which a process kill in the current control state becomes observable
NextEffect == CASE pc = "dl_check" -> (IF fs["final"].exists THEN (IF fs["decomp"].exists THEN "none" ELSE "dc_open") ELSE "dl_open")
                [] pc \in {"dl_done", "dc_check"} -> (IF fs["decomp"].exists THEN "none" ELSE "dc_open")
                [] pc \in {"dc_done", "done"} -> "none"
                [] OTHER -> pc
Entry(kind, j) == [kind |-> kind, pc |-> pc, at |-> NextEffect, wname |-> wname,
                   size |-> (IF wname = "" THEN 0 ELSE fs[wname].size), torn |-> j,
                   dir |-> [n \in {m \in DOMAIN fs' : fs'[m].exists} |-> fs'[n]], net |-> net']

GInit == Init /\ sched = <<[kind |-> "Init", dir |-> DirNow]>>
GProgram == Program /\ pc' # "dl_open_got" /\ UNCHANGED sched
GFault == Fault /\ sched' = Append(sched, Entry("Kill", 0))
GTorn == \E j \in 1..Block : Torn(j) /\ sched' = Append(sched, Entry("Torn", j))
GAbandon == Abandon /\ sched' = Append(sched, Entry("Exception", 0))
GRecall == Recall /\ sched' = Append(sched, Entry("Recall", 0))
GNext == GProgram \/ GFault \/ GTorn \/ GAbandon \/ GRecall

EmitSchedule == (pc = "done") => PrintT("JSON " \o ToJson([sched |-> sched, dir |-> DirNow, net |-> net]))
=============================================================================
