------------------------------- MODULE RepIter -------------------------------
(***************************************************************************)
(* fedjax.core.federated_data.RepeatableIterator: the first pass copies    *)
(* the items of the base iterable into a store (builtin containers are     *)
(* used as the store directly); every StopIteration resets the cursor to   *)
(* the start of the store.  Serves C15 (last clause).                      *)
(* Toggle ResetOnStop (FALSE: the cursor is not reset after a pass).       *)
(***************************************************************************)
EXTENDS Integers, Sequences, TLC

CONSTANTS MaxL, MaxPasses, ResetOnStop

VARIABLES len, container,   \* the base iterable: items 1..len; container = TRUE for list/tuple/dict/str/bytes
          firstPass, store, cursor, live,
          passes,           \* completed passes, each a sequence of items
          cur
vars == <<len, container, firstPass, store, cursor, live, passes, cur>>

Base == [j \in 1..len |-> j]
Init == /\ len \in 0..MaxL /\ container \in BOOLEAN
        /\ firstPass = ~container /\ store = (IF container THEN Base ELSE <<>>)
        /\ cursor = 1 /\ live = "base" /\ passes = <<>> /\ cur = <<>>

Source == IF live = "base" THEN Base ELSE store
NextItem == /\ Len(passes) < MaxPasses /\ cursor <= Len(Source)
            /\ cur' = Append(cur, Source[cursor]) /\ cursor' = cursor + 1
            /\ store' = IF firstPass THEN Append(store, Source[cursor]) ELSE store
            /\ UNCHANGED <<len, container, firstPass, live, passes>>
StopPass == /\ Len(passes) < MaxPasses /\ cursor > Len(Source)
            /\ firstPass' = FALSE /\ live' = "store"
            /\ cursor' = IF ResetOnStop THEN 1 ELSE cursor
            /\ passes' = Append(passes, cur) /\ cur' = <<>>
            /\ UNCHANGED <<len, container, store>>
Next == NextItem \/ StopPass
Spec == Init /\ [][Next]_vars

LaterPassesEqualFirst == \A j \in 1..Len(passes) : passes[j] = passes[1]
FirstPassIsBase == Len(passes) >= 1 => passes[1] = Base
=============================================================================
