------------------------------ MODULE MaskedLoss ------------------------------
(***************************************************************************)
(* Quantities that fedjax derives from PADDED batches, on the exact        *)
(* island: per-example loss l_i = 1/2 (w - x_i)^2 of a scalar parameter w, *)
(* regulariser r(w) = lam/2 w^2.  A dataset is cut into batches whose      *)
(* slots are real examples or masked padding rows (built step by step, so  *)
(* TLC visits every layout: order, cuts, padding at any position, fully    *)
(* padded batches).  Per batch the code computes                           *)
(*   grad (models.grad):  sum m_i (w - x_i) / sum m_i  (0 if no real row)  *)
(*                        + r'(w), ONCE                                    *)
(*   _evaluate_average_loss_step: accum += sum m_i l_i ; num += sum m_i    *)
(*   mime.create_grads_for_each_client: gsum += grad_b * num_b             *)
(*   agnostic domain metrics: per-domain masked sums of l_i and of m_i     *)
(* and at the end  average loss = safe_div(accum, num) + r(w),             *)
(*                 full-batch gradient = gsum / nsum.                      *)
(* The declarative counterparts do not mention batches.  Serves C06.       *)
(* Deviations: RegOnce (FALSE: the regulariser is added inside the masked  *)
(* mean, so it vanishes on a fully padded batch), MaskRows (FALSE: padded  *)
(* rows are counted), SafeDiv (FALSE: 0/0).                                *)
(***************************************************************************)
EXTENDS Rationals, FiniteSets, TLC, Json

CONSTANTS Datasets,      \* set of datasets: sequences of [x |-> integer, d |-> domain in 1..2]
          Ws, Lams,      \* sets of rationals for w and lam
          PadXs,         \* the values a padding row may hold (arbitrary content)
          MaxSlots, MaxPads, MaxBatches,
          RegOnce, MaskRows, SafeDiv

VARIABLES data, w, lam,
          todo, used, layout, cur, pads,
          bsum, bnum, bloss, bdl, bdn,           \* running sums of the batch being built
          accum, num, gsum, nsum, dl, dn,        \* running dataset-level accumulators
          bgrads                                 \* gradient computed for every closed batch
vars == <<data, w, lam, todo, used, layout, cur, pads, bsum, bnum, bloss, bdl, bdn, accum, num, gsum, nsum, dl, dn, bgrads>>

Z2 == [d \in 1..2 |-> RZero]
N2 == [d \in 1..2 |-> 0]
Loss(x) == RMul(<<1, 2>>, RMul(RSub(w, R(x)), RSub(w, R(x))))
Reg == RMul(RMul(lam, <<1, 2>>), RMul(w, w))
RegGrad == RMul(lam, w)

Init == /\ data \in Datasets /\ w \in Ws /\ lam \in Lams
        /\ todo = 1..Len(data) /\ used = <<>> /\ layout = <<>> /\ cur = <<>> /\ pads = 0
        /\ bsum = RZero /\ bnum = 0 /\ bloss = RZero /\ bdl = Z2 /\ bdn = N2
        /\ accum = RZero /\ num = 0 /\ gsum = RZero /\ nsum = 0 /\ dl = Z2 /\ dn = N2 /\ bgrads = <<>>

Place(i) == /\ i \in todo /\ Len(cur) < MaxSlots /\ Len(layout) < MaxBatches
            /\ todo' = todo \ {i} /\ used' = Append(used, i) /\ cur' = Append(cur, i)
            /\ bsum' = RAdd(bsum, RSub(w, R(data[i].x))) /\ bnum' = bnum + 1
            /\ bloss' = RAdd(bloss, Loss(data[i].x))
            /\ bdl' = [bdl EXCEPT ![data[i].d] = RAdd(@, Loss(data[i].x))] /\ bdn' = [bdn EXCEPT ![data[i].d] = @ + 1]
            /\ UNCHANGED <<data, w, lam, layout, pads, accum, num, gsum, nsum, dl, dn, bgrads>>
\* a masked padding row holding the arbitrary value x (in domain 1): contributes nothing when rows are masked
Pad(x) == /\ x \in PadXs /\ Len(cur) < MaxSlots /\ pads < MaxPads /\ Len(layout) < MaxBatches
          /\ cur' = Append(cur, 0) /\ pads' = pads + 1
          /\ IF MaskRows THEN UNCHANGED <<bsum, bnum, bloss, bdl, bdn>>
             ELSE /\ bsum' = RAdd(bsum, RSub(w, R(x))) /\ bnum' = bnum + 1 /\ bloss' = RAdd(bloss, Loss(x))
                  /\ bdl' = [bdl EXCEPT ![1] = RAdd(@, Loss(x))] /\ bdn' = [bdn EXCEPT ![1] = @ + 1]
          /\ UNCHANGED <<data, w, lam, todo, used, layout, accum, num, gsum, nsum, dl, dn, bgrads>>
\* the batch gradient as models.grad computes it
BatchGrad == LET mean == IF bnum = 0 THEN (IF SafeDiv THEN RZero ELSE <<0, 0>>) ELSE RMul(bsum, <<1, bnum>>)
             IN IF mean[2] = 0 THEN mean                                 \* NaN stays NaN
                ELSE IF RegOnce THEN RAdd(mean, RegGrad)
                ELSE IF bnum = 0 THEN RZero ELSE RAdd(mean, RegGrad)     \* regulariser inside the masked mean
Close == /\ cur # <<>>
         /\ LET g == BatchGrad IN
            /\ bgrads' = Append(bgrads, g)
            /\ gsum' = (IF g[2] = 0 \/ gsum[2] = 0 THEN <<0, 0>> ELSE RAdd(gsum, RMul(g, R(bnum)))) /\ nsum' = nsum + bnum
         /\ accum' = RAdd(accum, bloss) /\ num' = num + bnum
         /\ dl' = [d \in 1..2 |-> RAdd(dl[d], bdl[d])] /\ dn' = [d \in 1..2 |-> dn[d] + bdn[d]]
         /\ layout' = Append(layout, cur) /\ cur' = <<>> /\ pads' = 0
         /\ bsum' = RZero /\ bnum' = 0 /\ bloss' = RZero /\ bdl' = Z2 /\ bdn' = N2
         /\ UNCHANGED <<data, w, lam, todo, used>>
Next == (\E i \in 1..Len(data) : Place(i)) \/ (\E x \in PadXs : Pad(x)) \/ Close
Spec == Init /\ [][Next]_vars

(* ---- declarative side: no batches, no masks ---- *)
RECURSIVE SumOver(_, _)
SumOver(S, kind) == IF S = {} THEN RZero
                    ELSE LET i == CHOOSE j \in S : TRUE
                         IN RAdd(IF kind = "grad" THEN RSub(w, R(data[i].x)) ELSE Loss(data[i].x), SumOver(S \ {i}, kind))
UsedSet == {used[k] : k \in 1..Len(used)}
DeclGrad(S) == RAdd(IF S = {} THEN RZero ELSE RMul(SumOver(S, "grad"), <<1, Cardinality(S)>>), RegGrad)
DeclAvgLoss(S) == RAdd(IF S = {} THEN RZero ELSE RMul(SumOver(S, "loss"), <<1, Cardinality(S)>>), Reg)
AvgLoss == RAdd(IF num = 0 THEN RZero ELSE RMul(accum, <<1, num>>), Reg)
FullGrad == IF gsum[2] = 0 THEN gsum ELSE IF nsum = 0 THEN RZero ELSE RMul(gsum, <<1, nsum>>)
AtBoundary == cur = <<>>
RealOf(b) == {b[k] : k \in {j \in 1..Len(b) : b[j] # 0}}

\* the gradient of every padded batch is the gradient of its real rows, the regulariser counted exactly once
BatchGradIsUnpadded == \A k \in 1..Len(layout) : bgrads[k] = DeclGrad(RealOf(layout[k]))
AvgLossIsUnbatched == AtBoundary => AvgLoss = DeclAvgLoss(UsedSet)
\* the full-batch (server) gradient: data part independent of geometry, regulariser once (when any real example was seen)
FullGradIsUnbatched == (AtBoundary /\ nsum > 0) => FullGrad = DeclGrad(UsedSet)
DomainSumsAreUnbatched == AtBoundary => \A d \in 1..2 :
                             /\ dn[d] = Cardinality({i \in UsedSet : data[i].d = d})
                             /\ dl[d] = SumOver({i \in UsedSet : data[i].d = d}, "loss")
NoRealExampleGivesZero == (AtBoundary /\ num = 0) => (AvgLoss = Reg /\ FullGrad = RZero)
NoNaN == \A k \in 1..Len(bgrads) : bgrads[k][2] # 0
Complete == todo = {} /\ cur = <<>>
Emit == Complete => PrintT("JSON " \o ToJson([data |-> data, w |-> w, lam |-> lam, layout |-> layout, bgrads |-> bgrads,
                                              avgloss |-> AvgLoss, fullgrad |-> FullGrad, nsum |-> nsum, dl |-> dl, dn |-> dn]))
=============================================================================
