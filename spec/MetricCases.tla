----------------------------- MODULE MetricCases -----------------------------
(***************************************************************************)
(* Enumerates (metric, constructor arguments, example, prediction) cases   *)
(* over the full small domain, evaluates the definitions of MetricDefs on  *)
(* them and checks the documented identities.  The generator prints every  *)
(* case with its expected single-example statistic (leg R of C14).         *)
(* Toggles: TieLowest (FALSE: ties broken toward the highest index),       *)
(*          OovIsMember (FALSE: product of equalities instead of           *)
(*          membership), NegKZero (FALSE: Python slice semantics for k<0). *)
(***************************************************************************)
EXTENDS MetricDefs, Json

CONSTANTS C,            \* number of classes
          ScoreMax,     \* scores range over 0..ScoreMax
          SeqLen,       \* sequence length for the sequence metrics
          Family,       \* "single" or "sequence"
          TieLowest, OovIsMember, NegKZero

Classes == 0..(C - 1)
Scores == [1..C -> 0..ScoreMax]
\* a reduced set of per-position score vectors for sequences (ties, clear winners, all-equal)
PosScores == {s \in Scores : \A i \in 1..C : s[i] \in {0, ScoreMax}} \cup {[i \in 1..C |-> i - 1], [i \in 1..C |-> C - i]}
Ks == (0 - C)..(C + 1)
MaskedSets == {{0}, {0, 2}, {}}
BannedSets == {{}, {C - 1}}
OovSets == {{1}, {1, 2}, {}}

VARIABLES case, stat, phase
vars == <<case, stat, phase>>

SingleCases == [m : {"accuracy", "topk", "confusion", "per_domain_accuracy"}, target : Classes, scores : Scores, k : Ks, d : 0..1]
SeqCases == [m : {"tok_acc", "tok_acc_pp", "tok_topk", "tok_topk_pp", "tok_count", "seq_count", "length", "trunc", "oov", "oov_pp", "xent_tokens"},
             target : [1..SeqLen -> Classes], preds : [1..SeqLen -> PosScores], k : {0 - 1, 0, 1, 2, C}, masked : MaskedSets,
             banned : BannedSets, oov : OovSets, eos : {1, 2}]
\* arguments a metric ignores are pinned, so that each distinct case appears once
Relevant(c) == IF Family = "single"
               THEN /\ (c.m # "topk" => c.k = 1) /\ (c.m # "per_domain_accuracy" => c.d = 0)
               ELSE /\ (c.m \notin {"tok_topk", "tok_topk_pp"} => c.k = 1)
                    /\ (c.m \notin {"tok_acc", "tok_acc_pp", "tok_topk", "tok_topk_pp"} => (c.banned = {} /\ c.preds = [p \in 1..SeqLen |-> [i \in 1..C |-> 0]]))
                    /\ (c.m \notin {"oov", "oov_pp"} => c.oov = {})
                    /\ (c.m # "trunc" => c.eos = 1)

Init == /\ case \in (IF Family = "single" THEN {c \in SingleCases : Relevant(c)} ELSE {c \in SeqCases : Relevant(c)})
        /\ stat = <<>> /\ phase = "todo"

\* deviations
ArgMaxD(scores) == IF TieLowest THEN ArgMax(scores)
                   ELSE (CHOOSE i \in 1..Len(scores) : scores[i] = MaxScore(scores) /\ \A j \in (i + 1)..Len(scores) : scores[j] < MaxScore(scores)) - 1
TopKD(k, t, s) == IF NegKZero \/ k >= 0 THEN TopKAccuracy(k, t, s)
                  ELSE New(B2I(Ahead(s, t) < Len(s) + k), 1)          \* argsort(-pred)[:k] with negative k
OovD(oov, target, masked) == IF OovIsMember THEN SeqTokenOOVRate(oov, target, masked)
                             ELSE LET w == Weight(target, masked)
                                      allof == [p \in 1..Len(target) |-> B2I(\A o \in oov : target[p] = o)]
                                  IN New(SumSeq(Times(allof, w)), SumSeq(w))

Value(c) ==
  IF Family = "single" THEN
    CASE c.m = "accuracy" -> New(B2I(c.target = ArgMaxD(c.scores)), 1)
      [] c.m = "topk" -> TopKD(c.k, c.target, c.scores)
      [] c.m = "confusion" -> ConfusionMatrix(c.target, c.scores)
      [] c.m = "per_domain_accuracy" -> PerDomain(Accuracy(c.target, c.scores), c.d, 2)
  ELSE
    CASE c.m = "tok_acc" -> SeqTokenAccuracy(c.target, c.preds, c.masked, c.banned)
      [] c.m = "tok_acc_pp" -> SeqTokenAccuracyPP(c.target, c.preds, c.masked, c.banned)
      [] c.m = "tok_topk" -> SeqTokenTopK(c.k, c.target, c.preds, c.masked, c.banned)
      [] c.m = "tok_topk_pp" -> SeqTokenTopKPP(c.k, c.target, c.preds, c.masked, c.banned)
      [] c.m = "tok_count" -> SeqTokenCount(c.target, c.masked)
      [] c.m = "seq_count" -> SeqCount(c.target, c.masked)
      [] c.m = "length" -> SeqLength(c.target, c.masked)
      [] c.m = "trunc" -> SeqTruncationRate(c.eos, c.target, c.masked)
      [] c.m = "oov" -> OovD(c.oov, c.target, c.masked)
      [] c.m = "oov_pp" -> SeqTokenOOVRatePP(c.oov, c.target, c.masked)
      [] c.m = "xent_tokens" -> CrossEntropyTokens(c.target, c.masked)

Evaluate == phase = "todo" /\ stat' = Value(case) /\ phase' = "done" /\ UNCHANGED case
Next == Evaluate
Spec == Init /\ [][Next]_vars

(* ---- documented identities (C14) ---- *)
Done == phase = "done"
Top1IsAccuracy == (Done /\ Family = "single" /\ case.m = "topk" /\ case.k = 1) => stat = Accuracy(case.target, case.scores)
TopKExtremes == (Done /\ Family = "single" /\ case.m = "topk") =>
                   /\ (case.k < 1 => stat = New(0, 1))
                   /\ (case.k >= C => stat = New(1, 1))
TiesLowestIndex == (Done /\ Family = "single" /\ case.m = "accuracy") =>
                      \A c \in Classes : (case.scores[c + 1] = MaxScore(case.scores) /\ \A j \in 1..c : case.scores[j] < MaxScore(case.scores))
                                         => (stat.a = 1 <=> case.target = c)
\* the confusion matrix has one count, at (target, predicted), so its trace is the accuracy
ConfusionTrace == (Done /\ Family = "single" /\ case.m = "confusion") =>
                     /\ SumSeq([i \in 1..C |-> SumSeq([j \in 1..C |-> stat[i - 1][j - 1]])]) = 1
                     /\ SumSeq([i \in 1..C |-> stat[i - 1][i - 1]]) = Accuracy(case.target, case.scores).a
PerDomainRestriction == (Done /\ Family = "single" /\ case.m = "per_domain_accuracy") =>
                           /\ stat[case.d] = Accuracy(case.target, case.scores)
                           /\ \A e \in 0..1 : e # case.d => stat[e] = Zero
\* a fully masked sequence contributes the zero statistic everywhere
FullyMaskedIsZero == (Done /\ Family = "sequence" /\ \A p \in 1..SeqLen : case.target[p] \in case.masked) =>
                        CASE case.m \in {"tok_acc", "tok_topk", "length", "trunc", "oov"} -> stat = Zero
                          [] case.m \in {"tok_count", "seq_count"} -> stat.a = 0
                          [] OTHER -> TRUE
OovCountsMembers == (Done /\ Family = "sequence" /\ case.m = "oov") =>
                       stat.a = Cardinality({p \in 1..SeqLen : case.target[p] \in case.oov /\ case.target[p] \notin case.masked})
PerPositionSumsToWhole == (Done /\ Family = "sequence" /\ case.m = "tok_acc_pp") =>
                             MergeAll(stat) = SeqTokenAccuracy(case.target, case.preds, case.masked, case.banned)

Emit == Done => PrintT("JSON " \o ToJson([c |-> case, stat |-> stat]))
=============================================================================
