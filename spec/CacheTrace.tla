----------------------------- MODULE CacheTrace -----------------------------
(***************************************************************************)
(* Trace validation for Cache: one trace = one call sequence               *)
(* maybe_download(url); maybe_lzma_decompress(path) of the real code from  *)
(* a real cache directory, under an injected kill / I/O error / network    *)
(* failure, recorded by the fault interposer.  The real directory (exists, *)
(* size, "is a prefix of the right content") is bound after every effect.  *)
(***************************************************************************)
EXTENDS Cache, TraceBatch

tvars == <<vars, tid, l>>

FsOf(pairs, names) == [n \in names |->
                         IF \E i \in 1..Len(pairs) : pairs[i][1] = n
                         THEN pairs[CHOOSE i \in 1..Len(pairs) : pairs[i][1] = n][2]
                         ELSE NoFile]
NamesOf(t) == {t.names[i] : i \in 1..Len(t.names)} \cup BaseNames

TraceInit == /\ BatchInit
             /\ pc = "dl_check" /\ wname = "" /\ net = 0 /\ faults = 0 /\ ret = <<>>
             /\ fs = FsOf(Traces[tid].init, NamesOf(Traces[tid]))

Snap == FsOf(Ev.dir, DOMAIN fs)

TOpen == /\ IsEvent("Open")
         /\ \/ DlOpen(Ev.name)
            \/ DcOpen(Ev.name)
         /\ fs' = Snap
TNet == IsEvent("NetGet") /\ DlGet
TWrite == /\ IsEvent("Write") /\ Ev.name = wname
          /\ \/ DlWrite(Ev.n)
             \/ DcCopy(Ev.n)
          /\ fs' = Snap
TClose == IsEvent("Close") /\ Ev.name = wname /\ (DlClose \/ DcClose \/ Abandon)
TRename == /\ IsEvent("Rename")
           /\ \/ DlRename(Ev.src, Ev.dst)
              \/ DcRename(Ev.src, Ev.dst)
           /\ fs' = Snap
TRemove == IsEvent("Remove") /\ Remove(Ev.name) /\ fs' = Snap
TRead == IsEvent("Read") /\ UNCHANGED vars
TReturn == /\ IsEvent("Return")
           /\ \/ (Ev.which = "final" /\ DlReturn)
              \/ (Ev.which = "decomp" /\ DcReturn)
TFault == (IsEvent("Crash") \/ IsEvent("Fail")) /\ (Fault \/ Raised)
Silent == (DlCheck \/ DcCheck) /\ UNCHANGED <<tid, l>>

TraceNext == TOpen \/ TNet \/ TWrite \/ TClose \/ TRename \/ TRemove \/ TRead \/ TReturn \/ TFault \/ Silent

\* action-level properties, evaluated on the pair (previous directory, bound directory) by the guards above;
\* state-level properties recorded per trace
Verdicts == /\ Progress(<<pc, wname, net>>)
            /\ Check("FinalCompleteOrAbsent", FinalCompleteOrAbsent, FALSE)
            /\ Check("ReturnsComplete", ReturnsComplete, FALSE)
            /\ Check("ReuseWithoutNetwork", T.init_final_complete => net = 0, FALSE)
            /\ OkSoFar
\* fault-point coverage: which control states of the specification the injected faults hit
\* (an exception first closes the file being written - the Close event - and then reaches the caller - Fail)
FaultPcs == (l <= NEv /\ Ev.e \in {"Crash", "Fail", "Close"}) => PrintT("JSON " \o ToJson([faultpc |-> pc]))
=============================================================================
