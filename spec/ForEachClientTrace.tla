-------------------------- MODULE ForEachClientTrace --------------------------
(* Trace validation for ForEachClient: one trace = one real call of a backend  *)
(* on a client collection with the free client program realised in JAX (the    *)
(* state carries the consumed token sequence).  The specification is run to    *)
(* completion silently; every Yielded event must then be an element of the     *)
(* specification's `yielded`, each client exactly once.                        *)
EXTENDS ForEachClient, TraceBatch

VARIABLES seen
tvars == <<vars, seen, tid, l>>

TraceInit == /\ BatchInit
             /\ backend = Traces[tid].backend /\ nb = Traces[tid].nb /\ aliasInit = FALSE
             /\ phase = (IF backend = "pmap" THEN "blockify" ELSE "jnext")
             /\ blocks = <<>> /\ bi = 0 /\ pstate = <<>> /\ pres = <<>> /\ j = 0 /\ yielded = {}
             /\ cur = 0 /\ jstate = <<>> /\ jres = <<>> /\ jbuf = 0 /\ deleted = {} /\ seen = {}

Silent == Next /\ UNCHANGED <<seen, tid, l>>
TYielded == /\ IsEvent("Yielded") /\ Done
            /\ [id |-> Ev.id, out |-> Ev.out, res |-> Ev.res] \in yielded
            /\ Ev.id \notin seen /\ seen' = seen \cup {Ev.id}
            /\ Ev.finite /\ UNCHANGED vars
TEnd == IsEvent("End") /\ Done /\ seen = 1..K /\ Ev.inputs_alive /\ Ev.inputs_unchanged /\ UNCHANGED <<vars, seen>>
TraceNext == Silent \/ TYielded \/ TEnd

Verdicts == /\ Progress(<<phase, bi, Cardinality(yielded), seen>>)
            /\ Check("ExactlyOnce", ExactlyOnce, TRUE)
            /\ Check("EqualsFold", EqualsFold, TRUE)
            /\ Check("NoPadObservable", NoPadObservable, TRUE)
            /\ OkSoFar
=============================================================================
