---------------------------- MODULE ExperimentGen ----------------------------
(***************************************************************************)
(* Generator for leg R of C09: Experiment extended with a history variable *)
(* that records, for every Crash, the control state it hit (the NAMED      *)
(* crash point: pc, round, status of the file being written) together with *)
(* the directory the specification expects right after it; at the end of a *)
(* behaviour (pc = "done") the whole crash schedule, the expected          *)
(* directories and the expected result are printed.  The driver then       *)
(* drives the real run_federated_experiment to crash at exactly those      *)
(* named points.  History variables multiply states, so this wrapper is    *)
(* used with small constants only; the properties are checked on           *)
(* Experiment itself.                                                      *)
(***************************************************************************)
EXTENDS Experiment, Json

VARIABLE sched
gvars == <<vars, sched>>

DirNow == [n \in {m \in DOMAIN fs : fs[m].status # "absent"} |-> fs[n]]
GInit == Init /\ sched = <<>>
GCrash == /\ Crash
          /\ sched' = Append(sched, [pc |-> pc, rnd |-> rnd, wstatus |-> (IF wname = NoName THEN "none" ELSE fs[wname].status),
                                     tsvstatus |-> fs[TsvName].status,
                                     visible |-> {n.r : n \in {m \in DOMAIN fs : IsCkpt(m) /\ fs[m].status # "absent"}}])
GNext == (Program /\ UNCHANGED sched) \/ GCrash
EmitSchedule == (pc = "done") => PrintT("JSON " \o ToJson([sched |-> sched, result |-> result,
                                                           visible |-> {n.r : n \in {m \in DOMAIN fs : IsCkpt(m) /\ fs[m].status # "absent"}},
                                                           tsv |-> fs[TsvName]]))
=============================================================================
