-------------------------- MODULE ExperimentTrace --------------------------
(***************************************************************************)
(* Trace validation for Experiment: each trace is ONE incarnation of the   *)
(* real run_federated_experiment (from a real directory state to a crash   *)
(* or to its return), recorded by the fault interposer.  Every event is    *)
(* matched to the corresponding action of Experiment, the directory        *)
(* snapshot taken from the real file system after each effect is bound to  *)
(* fs', and every invariant of Experiment is evaluated at every step.      *)
(* A batch of traces is validated per TLC run (variable tid).              *)
(***************************************************************************)
EXTENDS Experiment, TraceBatch

tvars == <<vars, tid, l>>

\* directory snapshots are lists of <<name, file>> pairs; names never listed are absent
FsOf(pairs, names) == [n \in names |->
                         IF \E i \in 1..Len(pairs) : pairs[i][1] = n
                         THEN pairs[CHOOSE i \in 1..Len(pairs) : pairs[i][1] = n][2]
                         ELSE Absent]
NamesOf(t) == {t.names[i] : i \in 1..Len(t.names)} \cup {TsvName}

TraceInit == /\ BatchInit
             /\ pc = "load" /\ st = <<>> /\ start = 0 /\ rnd = Unbound /\ samp = 0 /\ cohort = 0
             /\ fs = FsOf(Traces[tid].init, NamesOf(Traces[tid]))
             /\ wname = NoName /\ delq = <<>> /\ crashes = 0 /\ result = <<>> /\ loaded = 0

Snap == FsOf(Ev.dir, DOMAIN fs)
\* the real directory agrees with the specification's: same status everywhere, same content where loadable
FileMatches(f, g) == /\ f.status = g.status
                     /\ (f.status = "complete") => (f.content = g.content /\ f.round = g.round)
DirMatches == \A n \in DOMAIN fs : FileMatches(fs'[n], Snap[n])

TRead == IsEvent("Read") /\ LoadRead(Ev.name)
\* set_round_num: either directly after a successful read, or (no checkpoint read) LoadFresh composed with Seat
TSetRound == /\ IsEvent("SetRound")
             /\ \/ Seat(Ev.r)
                \/ /\ pc = "load" /\ VisibleNames = {}
                   /\ st' = <<>> /\ start' = 1 /\ loaded' = 0 /\ samp' = Ev.r
                   /\ IF 1 <= NumRounds THEN /\ rnd' = 1 /\ pc' = "sample" ELSE /\ rnd' = Unbound /\ pc' = "final"
                   /\ UNCHANGED <<cohort, fs, wname, delq, crashes, result>>
TSample == IsEvent("Sample") /\ Sample /\ cohort' = Ev.c
TApply == IsEvent("Apply") /\ Apply /\ st' = Ev.st
TOpen == /\ IsEvent("Open")
         /\ IF Ev.name.k = "tsv" THEN FinalOpen ELSE SaveOpen(Ev.name)
         /\ DirMatches
TWrite == /\ IsEvent("Write")
          /\ IF Ev.name.k = "tsv" THEN \E cls \in {"prefix", "complete"} : FinalWrite(cls)
             ELSE /\ Ev.name = wname
                  /\ \E cls \in {"prefix", "complete"} : SaveWrite(cls)
          /\ DirMatches
TClose == /\ IsEvent("Close")
          /\ IF Ev.name.k = "tsv" THEN pc = "return" /\ UNCHANGED vars
             ELSE Ev.name = wname /\ SaveClose
TRename == IsEvent("Rename") /\ SaveRename(Ev.src, Ev.dst) /\ DirMatches
TRemove == IsEvent("Remove") /\ Del(Ev.name) /\ DirMatches
TPeriodic == IsEvent("PeriodicEval") /\ PeriodicEval /\ Ev.round = rnd /\ Ev.st = st
TFinalEval == /\ IsEvent("FinalEval") /\ HasFinalEval /\ FinalEval
              /\ pc' = "final_open"      \* the real code did get its round number
              /\ Ev.st = st /\ Ev.round = FinalRound
TReturn == IsEvent("Return") /\ Return /\ result' = Ev.st
TCrash == IsEvent("Crash") /\ Crash
\* an exception other than the simulated kill escaped from the experiment call
TFail == IsEvent("Fail") /\ pc' = "failed"
         /\ UNCHANGED <<st, start, rnd, samp, cohort, fs, wname, delq, crashes, result, loaded>>

\* steps of the program that have no observable effect
Silent == /\ (DelDone \/ Saved \/ EndRound \/ (~HasFinalEval /\ FinalEval))
          /\ UNCHANGED <<tid, l>>
\* Named deviations: things the design never does but an implementation might.  They are enabled only when the
\* recorded run demonstrably took them (the next event is not the one the design requires), so that the
\* invariants - not a bare rejection - name what went wrong.
NextIs(e) == l <= NEv /\ Ev.e = e
DevSkipDelete == /\ pc = "del" /\ delq # <<>> /\ l <= NEv /\ Ev.e \notin {"Remove", "Crash", "Fail"}
                 /\ pc' = "saved" /\ delq' = <<>>
                 /\ UNCHANGED <<st, start, rnd, samp, cohort, fs, wname, crashes, result, loaded, tid, l>>
DevSkipFinalEval == /\ pc = "final" /\ HasFinalEval /\ NextIs("Return")
                    /\ pc' = "return"
                    /\ UNCHANGED <<st, start, rnd, samp, cohort, fs, wname, delq, crashes, result, loaded, tid, l>>

TraceNext == \/ TRead \/ TSetRound \/ TSample \/ TApply \/ TOpen \/ TWrite \/ TClose \/ TRename \/ TRemove
             \/ TPeriodic \/ TFinalEval \/ TReturn \/ TCrash \/ TFail \/ Silent
             \/ DevSkipDelete \/ DevSkipFinalEval

TraceSpec == TraceInit /\ [][TraceNext]_tvars

\* files planted by the driver that merely share the checkpoint prefix are never touched
DecoysKept == \A i \in 1..Len(T.decoys) : fs[T.decoys[i]] = FsOf(T.init, DOMAIN fs)[T.decoys[i]]

\* The inherited initial directory (l = 1) is not judged: it is the last state of an earlier, validated trace.
Verdicts == /\ Progress(<<pc, rnd, start, samp, wname, delq>>)
            /\ Check("VisibleComplete", VisibleComplete, FALSE)
            /\ Check("NewestWins", NewestWins, FALSE)
            /\ Check("ResumePoint", ResumePoint, FALSE)
            /\ Check("SamplerSeated", SamplerSeated, FALSE)
            /\ Check("StateCorrect", StateCorrect, FALSE)
            /\ Check("RoundMatchesState", RoundMatchesState, FALSE)
            /\ Check("AtMostKeep", AtMostKeep, FALSE)
            /\ Check("NoFailure", NoFailure, FALSE)
            /\ Check("ResultCorrect", ResultCorrect, FALSE)
            /\ Check("DecoysKept", DecoysKept, FALSE)
            /\ OkSoFar
CrashPcs == (l <= NEv /\ Ev.e = "Crash") => PrintT("JSON " \o ToJson([crashpc |-> pc]))
=============================================================================
