----------------------------- MODULE SamplerTrace -----------------------------
(* Trace validation for Sampler: events New(r) (a fresh real sampler, possibly  *)
(* in another process with another hash seed), SetRound(r), Sample(out, keys,   *)
(* flags).  `out` is the interned id of the returned (client ids, datasets,     *)
(* keys); `keys` the interned ids of the per-client PRNG keys.                  *)
EXTENDS Sampler, TraceBatch

VARIABLES keysOf    \* round -> set of key ids handed out in that round
tvars == <<vars, keysOf, tid, l>>

TraceInit == /\ BatchInit /\ kind = Traces[tid].kind /\ round = 0 /\ calls = 0 /\ pos = 0
             /\ memo = <<>> /\ bad = {} /\ hist = <<>> /\ keysOf = <<>>

ToSet(s) == {s[x] : x \in 1..Len(s)}
\* the real value replaces the abstract one; everything else is the specification's action
TSample == /\ IsEvent("Sample")
           /\ kind' = kind /\ calls' = calls + 1 /\ hist' = hist
           /\ round' = round + 1 /\ pos' = pos + Cohort
           /\ Remember(round, Ev.out)
           /\ keysOf' = Put(keysOf, round, ToSet(Ev.keys))
           /\ (kind = "get" => Ev.no_repeat) /\ Ev.ids_from_dataset /\ Ev.dataset_matches_id /\ Ev.cohort_size_ok /\ Ev.id_types_ok
TSetRound == IsEvent("SetRound") /\ kind = "get" /\ round' = Ev.r
             /\ UNCHANGED <<kind, calls, pos, memo, bad, hist, keysOf>>
TNew == IsEvent("New") /\ round' = Ev.r /\ calls' = 0 /\ pos' = Ev.r * Cohort
        /\ UNCHANGED <<kind, memo, bad, hist, keysOf>>
\* sample() raised (the dataset failed while the cohort was being fetched): the round is not consumed
TFailed == IsEvent("SampleFailed") /\ UNCHANGED <<vars, keysOf>>
TEnd == IsEvent("End") /\ UNCHANGED <<vars, keysOf>>
TraceNext == TSample \/ TSetRound \/ TNew \/ TFailed \/ TEnd

KeysDistinctInRound == \A r \in DOMAIN keysOf : Cardinality(keysOf[r]) = T.cohort
KeysDifferAcrossRounds == \A r1, r2 \in DOMAIN keysOf : r1 # r2 => keysOf[r1] \cap keysOf[r2] = {}
Verdicts == /\ Progress(<<round, bad>>)
            /\ Check("PureInRound", PureInRound, TRUE)
            /\ Check("KeysDistinctInRound", KeysDistinctInRound, TRUE)
            /\ Check("KeysDifferAcrossRounds", KeysDifferAcrossRounds, TRUE)
            /\ OkSoFar
=============================================================================
