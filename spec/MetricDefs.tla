------------------------------ MODULE MetricDefs ------------------------------
(***************************************************************************)
(* Definitions of fedjax.metrics statistics and built-in metrics over      *)
(* small integer score vectors (fedjax/core/metrics.py,                    *)
(* docs/fedjax.metrics.rst).  Classes are 0..C-1 (positions 1..C of a      *)
(* score sequence).  NegInf stands for a -inf logit (logits_mask).         *)
(* A MeanStat is [a, w] ("accum", "weight"), a SumStat is [a].             *)
(* Serves C05 and C14.                                                     *)
(***************************************************************************)
EXTENDS Integers, Sequences, FiniteSets, TLC

NegInf == 0 - 1000

(* ---- the Stat algebra ---- *)
Zero == [a |-> 0, w |-> 0]
\* MeanStat.new: a non-positive weight is sanitised to the identity
New(a, w) == IF w <= 0 THEN Zero ELSE [a |-> a, w |-> w]
Merge(s, t) == New(s.a + t.a, s.w + t.w)
SumMerge(s, t) == [a |-> s.a + t.a]
SumZero == [a |-> 0]
RECURSIVE MergeAll(_)
MergeAll(seq) == IF seq = <<>> THEN Zero ELSE Merge(Head(seq), MergeAll(Tail(seq)))
\* the result of a MeanStat as the rational <<num, den>>; 0 for the zero statistic (safe_div)
Result(s) == IF s.w = 0 THEN <<0, 1>> ELSE <<s.a, s.w>>

(* ---- single-label classification ---- *)
NumClasses(scores) == Len(scores)
MaxScore(scores) == CHOOSE m \in {scores[i] : i \in 1..Len(scores)} : \A i \in 1..Len(scores) : scores[i] <= m
\* argmax with ties broken toward the lowest class index; classes are 0-based
ArgMax(scores) == (CHOOSE i \in 1..Len(scores) : scores[i] = MaxScore(scores) /\ \A j \in 1..(i - 1) : scores[j] < MaxScore(scores)) - 1
\* rank of class c (0-based) in the stable descending order: number of classes strictly ahead of it
Ahead(scores, c) == Cardinality({j \in 1..Len(scores) : scores[j] > scores[c + 1] \/ (scores[j] = scores[c + 1] /\ j < c + 1)})
InTopK(scores, c, k) == IF k < 1 THEN FALSE ELSE IF k >= Len(scores) THEN TRUE ELSE Ahead(scores, c) < k
B2I(b) == IF b THEN 1 ELSE 0

Accuracy(target, scores) == New(B2I(target = ArgMax(scores)), 1)
TopKAccuracy(k, target, scores) == New(B2I(InTopK(scores, target, k)), 1)
\* one count at (target, predicted)
ConfusionMatrix(target, scores) == [r \in 0..(Len(scores) - 1) |-> [c \in 0..(Len(scores) - 1) |->
                                      B2I(r = target /\ c = ArgMax(scores))]]
\* statistics of base metric `s` routed to domain d out of D: the base statistic in slot d, zero elsewhere
PerDomain(s, d, D) == [i \in 0..(D - 1) |-> IF i = d THEN s ELSE Zero]

(* ---- sequence metrics: targets and per-position score vectors ---- *)
Weight(target, masked) == [p \in 1..Len(target) |-> B2I(target[p] \notin masked)]
RECURSIVE SumSeq(_)
SumSeq(s) == IF s = <<>> THEN 0 ELSE Head(s) + SumSeq(Tail(s))
AnyW(w) == B2I(\E p \in 1..Len(w) : w[p] = 1)
\* logits_mask: classes in `banned` get a -inf logit before the prediction is read
Masked(scores, banned) == [i \in 1..Len(scores) |-> IF (i - 1) \in banned THEN NegInf ELSE scores[i]]
TokenCorrect(target, preds, banned) == [p \in 1..Len(target) |-> B2I(target[p] = ArgMax(Masked(preds[p], banned)))]
TokenTopK(k, target, preds, banned) == [p \in 1..Len(target) |-> B2I(InTopK(Masked(preds[p], banned), target[p], k))]
Times(x, y) == [p \in 1..Len(x) |-> x[p] * y[p]]
PerPos(c, w) == [p \in 1..Len(w) |-> New(c[p] * w[p], w[p])]

SeqTokenAccuracy(target, preds, masked, banned) ==
  LET w == Weight(target, masked) IN New(SumSeq(Times(TokenCorrect(target, preds, banned), w)), SumSeq(w))
SeqTokenAccuracyPP(target, preds, masked, banned) == PerPos(TokenCorrect(target, preds, banned), Weight(target, masked))
SeqTokenTopK(k, target, preds, masked, banned) ==
  LET w == Weight(target, masked) IN New(SumSeq(Times(TokenTopK(k, target, preds, banned), w)), SumSeq(w))
SeqTokenTopKPP(k, target, preds, masked, banned) == PerPos(TokenTopK(k, target, preds, banned), Weight(target, masked))
SeqTokenCount(target, masked) == [a |-> SumSeq(Weight(target, masked))]
SeqCount(target, masked) == [a |-> AnyW(Weight(target, masked))]
SeqLength(target, masked) == LET w == Weight(target, masked) IN New(SumSeq(w), AnyW(w))
\* a sequence is truncated iff it never reaches the end-of-sequence label; empty sequences do not count
SeqTruncationRate(eos, target, masked) ==
  LET w == Weight(target, masked) IN New(B2I(\A p \in 1..Len(target) : target[p] # eos) * AnyW(w), AnyW(w))
\* a token is out of vocabulary iff its label is IN the oov set
IsOov(target, oov) == [p \in 1..Len(target) |-> B2I(target[p] \in oov)]
SeqTokenOOVRate(oov, target, masked) ==
  LET w == Weight(target, masked) IN New(SumSeq(Times(IsOov(target, oov), w)), SumSeq(w))
SeqTokenOOVRatePP(oov, target, masked) == PerPos(IsOov(target, oov), Weight(target, masked))
\* which tokens a (token / sequence) cross-entropy metric averages over: the combinatorial part of those metrics
CrossEntropyTokens(target, masked) == Weight(target, masked)
=============================================================================
