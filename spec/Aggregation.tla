----------------------------- MODULE Aggregation -----------------------------
(***************************************************************************)
(* fedjax.core.tree_util.tree_sum / tree_mean (and mean_aggregator, which  *)
(* maps onto tree_mean): a one-pass fold over (tree, weight) pairs with an *)
(* accumulator whose buffers are DONATED to the next addition.  Values are *)
(* exact (integer leaves, integer weights); the mean is kept as the pair   *)
(* <<sum of w*p, sum of w>>.  A buffer table records, for every array      *)
(* involved, who owns it and whether it has been donated (deleted).        *)
(* Serves C07.                                                             *)
(* Toggles (deviations): CopyFirst (tree_sum copies the first input),      *)
(* WeightFresh (tree_mean always multiplies into a fresh buffer, also for  *)
(* weight 1), ZeroGuard (total weight 0 gives zeros), DivideByWeight       *)
(* (FALSE: divides by the number of inputs), PeekFirst (TRUE: the input    *)
(* iterable is peeked once before the fold - harmless for a list, loses    *)
(* the first item of a one-pass iterator).                                 *)
(***************************************************************************)
EXTENDS Integers, Sequences, FiniteSets, TLC, Json

CONSTANTS Vals, MaxW, MaxK, Leaves, AllOrders,
          CopyFirst, WeightFresh, ZeroGuard, DivideByWeight, PeekFirst

\* value sets selectable from a cfg (negative literals cannot be written there)
ValsA == {0 - 2, 0, 1}
ValsB == {0 - 1, 2}
ValsC == {0 - 2, 0 - 1, 0, 1, 2}
Tree == [1..Leaves -> Vals]
VARIABLES mode,      \* "sum" or "mean"
          inputs,    \* sequence of [p |-> tree, w |-> weight]; input i lives in the caller's buffer i
          onepass,   \* TRUE: the inputs come from a generator (one pass only)
          order,     \* the order in which the caller lists the inputs
          cursor,    \* how many inputs have been consumed
          acc, accBuf, wsum, cnt,
          deleted,   \* set of buffer ids that were donated
          nextBuf, phase, result
vars == <<mode, inputs, onepass, order, cursor, acc, accBuf, wsum, cnt, deleted, nextBuf, phase, result>>

K == Len(inputs)
CallerBufs == 1..K          \* buffer ids 1..K belong to the caller; larger ids are library-owned
Zero == [l \in 1..Leaves |-> 0]
Add(a, b) == [l \in 1..Leaves |-> a[l] + b[l]]
Scale(a, w) == [l \in 1..Leaves |-> a[l] * w]
Perms(m) == IF AllOrders THEN Permutations(1..m) ELSE {[j \in 1..m |-> j]}

Init == /\ mode \in {"sum", "mean"}
        /\ inputs \in UNION {[1..m -> [p : Tree, w : (IF mode = "sum" THEN {1} ELSE 0..MaxW)]] : m \in 1..MaxK}
        /\ onepass \in BOOLEAN
        /\ order \in Perms(Len(inputs))
        /\ cursor = (IF PeekFirst /\ onepass THEN 1 ELSE 0)
        /\ acc = Zero /\ accBuf = 0 /\ wsum = 0 /\ cnt = 0 /\ deleted = {}
        /\ nextBuf = Len(inputs) + 1 /\ phase = "fold" /\ result = [num |-> Zero, den |-> 1, buf |-> 0, nan |-> FALSE]

Cur == inputs[order[cursor + 1]]
CurBuf == order[cursor + 1]

\* consume the next input: weight it (mean) or take it as is (sum), then add it to the accumulator,
\* donating the accumulator's old buffer
Step == /\ phase = "fold" /\ cursor < K
        /\ LET fresh == (mode = "mean" /\ (WeightFresh \/ Cur.w # 1)) \/ (mode = "sum" /\ cnt = 0 /\ CopyFirst)
               \* the buffer holding the (weighted) tree that is about to be added
               wbuf == IF fresh THEN nextBuf ELSE CurBuf
               val == IF mode = "mean" THEN Scale(Cur.p, Cur.w) ELSE Cur.p
           IN IF cnt = 0
              THEN /\ acc' = val /\ accBuf' = wbuf /\ deleted' = deleted
                   /\ nextBuf' = nextBuf + (IF fresh THEN 1 ELSE 0)
              ELSE \* _tree_add_eq(acc, weighted): donate_argnums = 0 donates the accumulator, result in a new buffer
                   /\ acc' = Add(acc, val) /\ deleted' = deleted \cup {accBuf}
                   /\ accBuf' = nextBuf + (IF fresh THEN 1 ELSE 0)
                   /\ nextBuf' = nextBuf + (IF fresh THEN 2 ELSE 1)
        /\ wsum' = wsum + Cur.w /\ cnt' = cnt + 1 /\ cursor' = cursor + 1
        /\ UNCHANGED <<mode, inputs, onepass, order, phase, result>>

Finish == /\ phase = "fold" /\ cursor = K
          /\ LET d == IF DivideByWeight THEN wsum ELSE cnt IN
             result' = IF mode = "sum" THEN [num |-> acc, den |-> 1, buf |-> accBuf, nan |-> FALSE]
                       ELSE IF d > 0 THEN [num |-> acc, den |-> d, buf |-> nextBuf, nan |-> FALSE]
                       ELSE [num |-> Zero, den |-> 1, buf |-> nextBuf, nan |-> ~ZeroGuard]
          \* _tree_inverse_weight_eq donates the accumulator
          /\ deleted' = IF mode = "mean" THEN deleted \cup {accBuf} ELSE deleted
          /\ phase' = "done"
          /\ UNCHANGED <<mode, inputs, onepass, order, cursor, acc, accBuf, wsum, cnt, nextBuf>>

Next == Step \/ Finish
Spec == Init /\ [][Next]_vars

(* ---- declarative side ---- *)
RECURSIVE SumScaled(_)
SumScaled(S) == IF S = {} THEN Zero
                ELSE LET i == CHOOSE x \in S : TRUE
                     IN Add(Scale(inputs[i].p, IF mode = "mean" THEN inputs[i].w ELSE 1), SumScaled(S \ {i}))
RECURSIVE WSum(_)
WSum(S) == IF S = {} THEN 0 ELSE LET i == CHOOSE x \in S : TRUE IN inputs[i].w + WSum(S \ {i})
DeclNum == SumScaled(1..K)
DeclDen == IF mode = "mean" THEN WSum(1..K) ELSE 1

AtEnd == phase = "done"
\* sum(w_i p_i) / sum(w_i), whatever the listing order, list or generator
ExactMean == (AtEnd /\ DeclDen > 0) => (result.den = DeclDen /\ result.num = DeclNum /\ ~result.nan)
ZeroTotalGivesZeros == (AtEnd /\ DeclDen = 0) => (result.num = Zero /\ ~result.nan)
InHull == (AtEnd /\ mode = "mean" /\ DeclDen > 0) =>
             \A l \in 1..Leaves :
                LET vs == {inputs[i].p[l] : i \in {j \in 1..K : inputs[j].w > 0}}
                IN \A lo \in vs, hi \in vs : ((\A v \in vs : lo <= v /\ v <= hi)
                                              => (lo * result.den <= result.num[l] /\ result.num[l] <= hi * result.den))
CallerBuffersAlive == deleted \cap CallerBufs = {}
ResultNotAliased == AtEnd => result.buf \notin CallerBufs
OnePass == cursor <= K
Emit == (AtEnd /\ order = [j \in 1..K |-> j] /\ ~onepass) =>
           PrintT("JSON " \o ToJson([mode |-> mode, inputs |-> inputs, num |-> result.num, den |-> result.den]))
=============================================================================
