---------------------------- MODULE BackendChoice ----------------------------
(***************************************************************************)
(* fedjax.core.for_each_client backend selection: a thread-local choice    *)
(* (BackendChoice(threading.local)), set_for_each_client_backend,          *)
(* the context manager for_each_client_backend (saves the old value, sets  *)
(* the new one, restores the old one in `finally`), and                    *)
(* get_for_each_client_backend (which replaces None by the default as a    *)
(* side effect).  Each thread runs a small program; TLC explores every     *)
(* interleaving.  Serves C02 (last clause).                                *)
(* Backend values: "none" (None), "jit", "debug", "pmap"; "bad" is an      *)
(* unsupported name (set raises ValueError).                               *)
(* Toggles: ThreadLocal (FALSE: one global variable), RestorePrevious      *)
(* (FALSE: the context exit restores the default), RestoreOnError (FALSE:  *)
(* no restore when the body raises).                                       *)
(***************************************************************************)
EXTENDS Integers, Sequences, FiniteSets, TLC, Json

CONSTANTS Threads, Programs, ThreadLocal, RestorePrevious, RestoreOnError

\* an op is [op |-> "set" | "enter" | "exit" | "exit_exc" | "get", b |-> backend]
VARIABLES prog,     \* thread -> its program (sequence of ops)
          pcs,      \* thread -> index of the next op
          choice,   \* thread -> current backend value (or one shared slot)
          stack,    \* thread -> saved values of the open contexts
          obs,      \* thread -> sequence of values returned by get
          hist      \* global schedule: sequence of <<thread, op index>>
vars == <<prog, pcs, choice, stack, obs, hist>>

Slot(t) == IF ThreadLocal THEN t ELSE 1
Valid(b) == b \in {"none", "jit", "debug", "pmap"}

Init == /\ prog \in [Threads -> Programs]
        /\ pcs = [t \in Threads |-> 1]
        /\ choice = [t \in Threads |-> "none"]
        /\ stack = [t \in Threads |-> <<>>]
        /\ obs = [t \in Threads |-> <<>>]
        /\ hist = <<>>

Cur(t) == prog[t][pcs[t]]
Advance(t) == /\ pcs' = [pcs EXCEPT ![t] = @ + 1]
              /\ hist' = Append(hist, <<t, pcs[t]>>)
              /\ UNCHANGED prog

\* set_for_each_client_backend(b); an unsupported name raises and changes nothing
Set(t) == /\ pcs[t] <= Len(prog[t]) /\ Cur(t).op = "set"
          /\ choice' = IF Valid(Cur(t).b) THEN [choice EXCEPT ![Slot(t)] = Cur(t).b] ELSE choice
          /\ Advance(t) /\ UNCHANGED <<stack, obs>>
\* with for_each_client_backend(b): old = choice; set(b)  -- if set raises, `finally` restores old and the body is skipped
Enter(t) == /\ pcs[t] <= Len(prog[t]) /\ Cur(t).op = "enter"
            /\ IF Valid(Cur(t).b)
               THEN /\ stack' = [stack EXCEPT ![t] = Append(@, choice[Slot(t)])]
                    /\ choice' = [choice EXCEPT ![Slot(t)] = Cur(t).b]
               ELSE UNCHANGED <<stack, choice>>
            /\ Advance(t) /\ UNCHANGED obs
\* leaving the innermost context, normally or by an exception raised in the body
Exit(t) == /\ pcs[t] <= Len(prog[t]) /\ Cur(t).op \in {"exit", "exit_exc"} /\ stack[t] # <<>>
           /\ LET old == stack[t][Len(stack[t])]
                  restored == IF RestorePrevious THEN old ELSE "none"
              IN choice' = IF Cur(t).op = "exit_exc" /\ ~RestoreOnError THEN choice
                           ELSE [choice EXCEPT ![Slot(t)] = restored]
           /\ stack' = [stack EXCEPT ![t] = SubSeq(@, 1, Len(@) - 1)]
           /\ Advance(t) /\ UNCHANGED obs
\* get_for_each_client_backend(): None is replaced by the default (jit) - and stays replaced
Get(t) == /\ pcs[t] <= Len(prog[t]) /\ Cur(t).op = "get"
          /\ LET v == IF choice[Slot(t)] = "none" THEN "jit" ELSE choice[Slot(t)] IN
             /\ obs' = [obs EXCEPT ![t] = Append(@, v)]
             /\ choice' = [choice EXCEPT ![Slot(t)] = v]
          /\ Advance(t) /\ UNCHANGED stack

Next == \E t \in Threads : Set(t) \/ Enter(t) \/ Exit(t) \/ Get(t)
Spec == Init /\ [][Next]_vars

(* ---- what a thread would see if it ran alone (the sequential meaning of its program) ---- *)
RECURSIVE Alone(_, _, _, _, _)
Alone(p, i, c, st, o) ==
  IF i > Len(p) THEN o
  ELSE LET x == p[i] IN
       CASE x.op = "set" -> Alone(p, i + 1, IF Valid(x.b) THEN x.b ELSE c, st, o)
         [] x.op = "enter" -> IF Valid(x.b) THEN Alone(p, i + 1, x.b, Append(st, c), o) ELSE Alone(p, i + 1, c, st, o)
         [] x.op \in {"exit", "exit_exc"} -> Alone(p, i + 1, st[Len(st)], SubSeq(st, 1, Len(st) - 1), o)
         [] x.op = "get" -> LET v == IF c = "none" THEN "jit" ELSE c IN Alone(p, i + 1, v, st, Append(o, v))

Finished == \A t \in Threads : pcs[t] > Len(prog[t])
\* backend selection is scoped to the current thread: whatever the interleaving, every thread observes exactly what
\* it would observe running alone
ThreadIsolation == Finished => \A t \in Threads : obs[t] = Alone(prog[t], 1, "none", <<>>, <<>>)
PrefixIsolation == \A t \in Threads : LET full == Alone(prog[t], 1, "none", <<>>, <<>>)
                                      IN Len(obs[t]) <= Len(full) /\ obs[t] = SubSeq(full, 1, Len(obs[t]))
Emit == Finished => PrintT("JSON " \o ToJson([prog |-> prog, hist |-> hist, obs |-> obs]))
=============================================================================
