------------------------------ MODULE Quantizer ------------------------------
(***************************************************************************)
(* fedjax.aggregators.compression: the stochastic quantizers as outcome    *)
(* sets with exact probabilities (rationals), following the code's         *)
(* arithmetic including its degenerate branches:                           *)
(*   u = (v - lo) / (hi - lo)            with 0/0 -> 0   (nan_to_num)      *)
(*   floor / ceil of u on the grid k / (L - 1)                             *)
(*   threshold = (u - floor) / (ceil - floor)   with 0/0 -> 0              *)
(*   output = lo + (rand > threshold ? floor : ceil) * (hi - lo)           *)
(* so a coordinate takes the value "ceil" with probability exactly         *)
(* threshold.  Binary quantization is L = 2.  TernGrad quantizes |v| with  *)
(* L = 2 between 0 and s = max |clipped v| and restores the sign.          *)
(* Second part: the key discipline of the compression aggregators as a     *)
(* term algebra (Split / Seq) and the bit accounting.  Serves C11.         *)
(* Deviations: RoundUpOnGrid (FALSE: a value on the grid may move),        *)
(* PerClientKeys (FALSE: every client of a round uses the round key).      *)
(***************************************************************************)
EXTENDS Rationals, FiniteSets, TLC, Json

CONSTANTS MaxL, Grid, Mode,        \* Mode = "uniform" | "keys"
          RoundUpOnGrid, PerClientKeys, MaxRounds, MaxClients

VARIABLES lo, hi, v, L, q, phase,         \* quantization case and its result
          round, key, used, bits          \* aggregator rounds: state key (a term), keys used so far, bit count
vars == <<lo, hi, v, L, q, phase, round, key, used, bits>>

Floor(x) == IF x[1] >= 0 THEN x[1] \div x[2] ELSE 0 - (((0 - x[1]) + x[2] - 1) \div x[2])
Ceil(x) == 0 - Floor(RNeg(x))
SafeDiv0(a, b) == IF b[1] = 0 THEN RZero ELSE RDiv(a, b)       \* nan_to_num(a / b) for finite a: 0/0 -> 0

Init == /\ Mode \in {"uniform", "keys"}
        /\ IF Mode = "uniform"
           THEN /\ lo \in {0 - 1, 0} /\ hi \in {lo, lo + 1, lo + 2} /\ L \in 2..MaxL
                /\ v \in {RAdd(R(lo), RMul(R(hi - lo), <<k, Grid>>)) : k \in 0..Grid}
           ELSE lo = 0 /\ hi = 0 /\ L = 2 /\ v = RZero
        /\ q = <<>> /\ phase = "todo" /\ round = 0 /\ key = <<"root">> /\ used = {} /\ bits = <<0, 0>>

Quantize == /\ Mode = "uniform" /\ phase = "todo"
            /\ LET span == R(hi - lo)
                   u == SafeDiv0(RSub(v, R(lo)), span)
                   sc == RMul(u, R(L - 1))
                   fl == Norm(Floor(sc), L - 1)
                   ce == IF RoundUpOnGrid THEN Norm(Ceil(sc), L - 1) ELSE Norm(Floor(sc) + 1, L - 1)
                   t == SafeDiv0(RSub(u, fl), RSub(ce, fl))
               IN q' = [fl |-> RAdd(R(lo), RMul(fl, span)), ce |-> RAdd(R(lo), RMul(ce, span)), t |-> t,
                        step |-> RMul(span, <<1, L - 1>>)]
            /\ phase' = "done" /\ UNCHANGED <<lo, hi, v, L, round, key, used, bits>>

\* one aggregator round: rng, use = split(state key); client i gets the i-th key of the sequence seeded by `use`
AggRound(n) == /\ Mode = "keys" /\ round < MaxRounds /\ n \in 1..MaxClients
               /\ LET use == <<"split", key, 1>>
                      KeyOf(i) == IF PerClientKeys THEN <<"seq", use, i>> ELSE use
                  IN /\ used' = used \cup {[r |-> round + 1, c |-> i, k |-> KeyOf(i)] : i \in 1..n}
                     /\ bits' = <<bits[1] + 1, bits[2] + 1>>      \* per round: 1 x log2(levels) x params + 1 x 64 x leaves
               /\ key' = <<"split", key, 0>> /\ round' = round + 1
               /\ UNCHANGED <<lo, hi, v, L, q, phase>>
Next == Quantize \/ (\E n \in 1..MaxClients : AggRound(n))
Spec == Init /\ [][Next]_vars

Done == phase = "done"
\* E[output] = (1 - t) floor + t ceil = v
Unbiased == Done => RAdd(RMul(RSub(R(1), q.t), q.fl), RMul(q.t, q.ce)) = v
\* both outcomes are neighbouring grid levels within [lo, hi], at most one step from v
Neighbours == Done => /\ RLe(R(lo), q.fl) /\ RLe(q.ce, R(hi)) /\ RLe(q.fl, v) /\ RLe(v, q.ce)
                      /\ RLe(RSub(q.ce, q.fl), q.step) /\ RLe(R(0), q.t) /\ RLe(q.t, R(1))
\* values already on the grid (incl. constant and all-zero vectors) pass unchanged: the only reachable outcome is v
OnGridIdentity == (Done /\ (lo = hi \/ RMul(SafeDiv0(RSub(v, R(lo)), R(hi - lo)), R(L - 1))[2] = 1)) => (q.fl = v /\ q.t = RZero)
\* no two quantizations (clients x rounds) ever use the same key
KeysNeverReused == \A a, c \in used : (a.k = c.k) => (a = c)
KeysPerRound == \A r \in 1..round : Cardinality({a \in used : a.r = r}) >= 1
BitsLinear == bits = <<round, round>>
Emit == Done => PrintT("JSON " \o ToJson([lo |-> lo, hi |-> hi, v |-> v, L |-> L, fl |-> q.fl, ce |-> q.ce, t |-> q.t]))
=============================================================================
