------------------------------ MODULE Rationals ------------------------------
(***************************************************************************)
(* Exact rational arithmetic for TLC: a rational is a normalised pair      *)
(* <<num, den>> with den > 0 and gcd(|num|, den) = 1.  TLC integers are    *)
(* 32-bit and overflow is a loud error, so an instance that leaves the     *)
(* "exact island" is detected, never silently mis-evaluated.               *)
(***************************************************************************)
EXTENDS Integers, Sequences

Abs(x) == IF x < 0 THEN 0 - x ELSE x
RECURSIVE Gcd(_, _)
Gcd(a, b) == IF b = 0 THEN a ELSE Gcd(b, a % b)
Norm(n, d) == LET s == IF d < 0 THEN 0 - 1 ELSE 1
                  g == Gcd(Abs(n), Abs(d))
              IN IF n = 0 THEN <<0, 1>> ELSE <<(s * n) \div g, (s * d) \div g>>
R(n) == <<n, 1>>
RZero == <<0, 1>>
\* a/b + c/d over the least common denominator, to keep intermediate values small
RAdd(x, y) == LET g == Gcd(x[2], y[2])
                  l == (x[2] \div g) * y[2]
              IN Norm(x[1] * (l \div x[2]) + y[1] * (l \div y[2]), l)
RNeg(x) == <<0 - x[1], x[2]>>
RSub(x, y) == RAdd(x, RNeg(y))
\* cross-cancel before multiplying
RMul(x, y) == LET g1 == Gcd(Abs(x[1]), y[2])
                  g2 == Gcd(Abs(y[1]), x[2])
              IN IF x[1] = 0 \/ y[1] = 0 THEN RZero
                 ELSE Norm((x[1] \div g1) * (y[1] \div g2), (x[2] \div g2) * (y[2] \div g1))
RInv(x) == IF x[1] < 0 THEN <<0 - x[2], 0 - x[1]>> ELSE <<x[2], x[1]>>
RDiv(x, y) == RMul(x, RInv(y))
RLe(x, y) == x[1] * y[2] <= y[1] * x[2]
REq(x, y) == x = y
=============================================================================
