------------------------------ MODULE MultiBatch ------------------------------
(***************************************************************************)
(* fedjax.padded_batch_client_datasets: many client datasets batched as    *)
(* one, with a carry-over buffer of pieces; one action per branch of the   *)
(* per-client body (Fits / EmitBufHead / EmitWhole / BufTail) and Flush.   *)
(* Examples carry global ids 1..Total in client order; 0 = padded row.     *)
(* Serves C15.  Toggles: ClearBuf (FALSE: the buffer is not cleared after   *)
(* it was emitted), KeepOffset (FALSE: the read offset is not reset for a  *)
(* client that starts on an empty buffer).                                 *)
(***************************************************************************)
EXTENDS Integers, Sequences, FiniteSets, TLC, Json

CONSTANTS MaxClients, MaxSize, MaxBS, MaxK, ClearBuf, KeepOffset

VARIABLES sizes, bs, k,        \* input
          bad,                 \* index of the first client whose preprocessor / feature set mismatches (0: none)
          ci,                  \* index of the client being processed
          start,               \* read offset inside the current client
          cbuf,                \* carried-over ids (concatenation of the buffered pieces)
          pieces,              \* number of buffered pieces (an empty client contributes an empty piece)
          out, phase

vars == <<sizes, bs, k, bad, ci, start, cbuf, pieces, out, phase>>

RECURSIVE SumTo(_, _)
SumTo(s, i) == IF i = 0 THEN 0 ELSE s[i] + SumTo(s, i - 1)
Offset(c) == SumTo(sizes, c - 1)
Total == SumTo(sizes, Len(sizes))
IdsOf(c, a, b) == [j \in 1..(b - a) |-> Offset(c) + a + j]      \* rows a+1..b of client c
Ones(m) == [j \in 1..m |-> TRUE]
Pad(ids, size) == ids \o [j \in 1..(size - Len(ids)) |-> 0]
MaskOf(real, size) == [j \in 1..size |-> j <= real]
RECURSIVE HalveN(_, _)
HalveN(x, i) == IF i = 0 THEN x ELSE HalveN(x \div 2, i - 1)
Buckets == {HalveN(bs, i) : i \in 0..(k - 1)}
FinalSize(real) == IF real % bs = 0 THEN bs
                   ELSE LET ok == {b \in Buckets : b >= real % bs} IN CHOOSE b \in ok : \A c \in ok : b <= c

Init == /\ sizes \in UNION {[1..m -> 0..MaxSize] : m \in 0..MaxClients}
        /\ bs \in 1..MaxBS /\ k \in 1..MaxK
        /\ bad \in {0} \cup 2..Len(sizes)
        /\ ci = 1 /\ start = 0 /\ cbuf = <<>> /\ pieces = 0 /\ out = <<>>
        /\ phase = "client"

Full(ids) == [ids |-> ids, mask |-> Ones(bs)]

\* if buf_size + size < batch_size: buffer the whole client
Fits == /\ phase = "client" /\ ci <= Len(sizes) /\ ci # bad /\ Len(cbuf) + sizes[ci] < bs
        /\ cbuf' = cbuf \o IdsOf(ci, 0, sizes[ci]) /\ pieces' = pieces + 1
        /\ ci' = ci + 1
        /\ UNCHANGED <<sizes, bs, k, bad, start, out, phase>>
\* if buf: complete the buffered rows with the head of this client and emit
EmitBufHead == /\ phase = "client" /\ ci <= Len(sizes) /\ ci # bad /\ Len(cbuf) + sizes[ci] >= bs /\ pieces > 0
               /\ LET st == bs - Len(cbuf)
                  IN /\ out' = Append(out, Full(cbuf \o IdsOf(ci, 0, st)))
                     /\ start' = st
               /\ cbuf' = (IF ClearBuf THEN <<>> ELSE cbuf) /\ pieces' = 0 /\ phase' = "whole"
               /\ UNCHANGED <<sizes, bs, k, bad, ci>>
\* else: start = 0
NoBuf == /\ phase = "client" /\ ci <= Len(sizes) /\ ci # bad /\ Len(cbuf) + sizes[ci] >= bs /\ pieces = 0
         /\ start' = IF KeepOffset THEN 0 ELSE start
         /\ phase' = "whole"
         /\ UNCHANGED <<sizes, bs, k, bad, ci, cbuf, pieces, out>>
\* while start + batch_size < size: emit a whole batch
EmitWhole == /\ phase = "whole"
             /\ start + bs < sizes[ci]
             /\ out' = Append(out, Full(IdsOf(ci, start, start + bs)))
             /\ start' = start + bs
             /\ UNCHANGED <<sizes, bs, k, bad, ci, cbuf, pieces, phase>>
\* if start < size: buffer the tail (which may be exactly one batch)
BufTail == /\ phase = "whole"
           /\ ~(start + bs < sizes[ci])
           /\ IF start < sizes[ci]
              THEN /\ cbuf' = cbuf \o IdsOf(ci, start, sizes[ci]) /\ pieces' = pieces + 1
              ELSE UNCHANGED <<cbuf, pieces>>
           /\ ci' = ci + 1 /\ phase' = "client"
           /\ UNCHANGED <<sizes, bs, k, bad, start, out>>
\* after the loop: if buf: pad by the bucket rule
Flush == /\ phase = "client" /\ ci > Len(sizes)
         /\ out' = IF pieces > 0
                   THEN Append(out, [ids |-> Pad(cbuf, FinalSize(Len(cbuf))), mask |-> MaskOf(Len(cbuf), FinalSize(Len(cbuf)))])
                   ELSE out
         /\ phase' = "done"
         /\ UNCHANGED <<sizes, bs, k, bad, ci, start, cbuf, pieces>>

\* a client whose preprocessor object or feature set differs from the first client's is rejected (ValueError)
Reject == /\ phase = "client" /\ ci = bad /\ phase' = "rejected"
          /\ UNCHANGED <<sizes, bs, k, bad, ci, start, cbuf, pieces, out>>

Next == Reject \/ Fits \/ EmitBufHead \/ NoBuf \/ EmitWhole \/ BufTail \/ Flush
Spec == Init /\ [][Next]_vars

(* ---- properties (C15, first sentence) ---- *)
RECURSIVE Flat(_)
Flat(s) == IF s = <<>> THEN <<>> ELSE Head(s) \o Flat(Tail(s))
RealRows(b) == SelectSeq(b.ids, LAMBDA x : x # 0)
Stream == Flat([j \in 1..Len(out) |-> RealRows(out[j])])
AtEnd == phase = "done"
MismatchRejected == (bad # 0) => phase # "done"
ConcatPreserved == AtEnd => Stream = [j \in 1..Total |-> j]
PrefixPreserved == Stream = [j \in 1..Len(Stream) |-> j]          \* at every step: no loss, duplication or reordering so far
AllButLastFull == \A j \in 1..(Len(out) - 1) : Len(RealRows(out[j])) = bs /\ Len(out[j].ids) = bs
LastPaddedByBucket == (AtEnd /\ Len(out) > 0) =>
                         LET b == out[Len(out)] IN Len(b.ids) = FinalSize(Len(RealRows(b)))
MaskIsPrefix == \A j \in 1..Len(out) : /\ Len(out[j].mask) = Len(out[j].ids)
                                       /\ \A r \in 1..Len(out[j].ids) : out[j].mask[r] = (out[j].ids[r] # 0)
BufferBounded == Len(cbuf) <= bs
Emit == AtEnd => PrintT("JSON " \o ToJson([sizes |-> sizes, bs |-> bs, k |-> k, out |-> out]))
=============================================================================
