-------------------------- MODULE ShuffleBatchTrace --------------------------
(* Trace validation for ShuffleBatch: one trace = one iteration of a real    *)
(* ShuffleRepeatBatchView; one event per yielded batch (ids decoded from the *)
(* real arrays), then End.  The permutation drawn by NumPy at each refill is *)
(* not logged: it is read off the next N ids of the recorded stream.         *)
EXTENDS ShuffleBatch, TraceBatch, SequencesExt

tvars == <<vars, tid, l>>

TraceInit == /\ BatchInit
             /\ n = Traces[tid].n /\ bs = Traces[tid].bs
             /\ epochs = Traces[tid].epochs /\ steps = Traces[tid].steps
             /\ drop = Traces[tid].drop /\ skip = Traces[tid].skip
             /\ buf = Identity(n) /\ i = n /\ cur = <<>> /\ nsteps = 0 /\ drawn = <<>> /\ phase = "loop"

Stream == T.stream
Upcoming == SubSeq(Stream, Len(drawn) + 1, Min(Len(drawn) + n, Len(Stream)))
ValidUp == /\ {buf[j] : j \in 1..n} = 1..n
           /\ \A j \in 1..Len(Upcoming) : Upcoming[j] \in 1..n
           /\ \A a, b \in 1..Len(Upcoming) : Upcoming[a] = Upcoming[b] => a = b
IndexIn(s, v) == CHOOSE j \in 1..Len(s) : s[j] = v
PermFor == LET known == [j \in 1..Len(Upcoming) |-> IndexIn(buf, Upcoming[j])]
           IN known \o SetToSortSeq(1..n \ {known[j] : j \in 1..Len(known)}, <)

TEmit == IsEvent("Batch") /\ Emit /\ cur = Ev.ids /\ Ev.feat_ok
TEnd == /\ IsEvent("End") /\ (phase = "done" \/ (T.truncated /\ phase = "loop"))
        /\ UNCHANGED vars
\* a truncated (infinite) stream: the driver stopped pulling; nothing more to explain
Silent == /\ \/ (Loop /\ ~(T.truncated /\ l <= NEv /\ Ev.e = "End"))
             \/ Take
             \/ ((ValidUp = TRUE) /\ Refill(PermFor))
          /\ UNCHANGED <<tid, l>>
\* named deviation: the recorded stream continues with something that is not (a prefix of) a permutation
DevBadRefill == /\ phase = "fill" /\ Len(cur) < bs /\ i = n /\ (ValidUp = FALSE)
                /\ buf' = [j \in 1..n |-> IF j <= Len(Upcoming) THEN Upcoming[j] ELSE 1] /\ i' = 0
                /\ UNCHANGED <<n, bs, epochs, steps, drop, skip, cur, nsteps, drawn, phase, tid, l>>
TraceNext == TEmit \/ TEnd \/ Silent \/ DevBadRefill

LastWindowPerm == (Len(drawn) > 0 /\ Len(drawn) % n = 0 /\ cur = <<>>) => IsPerm(Window(NumWindows))
AtEndOfTrace == l > NEv
Reshuffled == (AtEndOfTrace /\ ~skip /\ n >= 8 /\ NumWindows >= 3) =>
                 \E a, b \in 1..NumWindows : Window(a) # Window(b)
EveryBatchFull == \A j \in 1..NEv : T.events[j].e = "Batch" => Len(T.events[j].ids) = bs
SeededRepeat == T.seeded => (T.again = T.stream)
Unchanged == T.dataset_unchanged
NBatches == Cardinality({j \in 1..NEv : T.events[j].e = "Batch"})
CountDocumented == T.truncated \/ NBatches = DeclSteps

Verdicts == /\ Progress(<<phase, i, nsteps, Len(drawn)>>)
            /\ Check("EveryBatchFull", l > 1 \/ EveryBatchFull, TRUE)
            /\ Check("SeededRepeat", l > 1 \/ SeededRepeat, TRUE)
            /\ Check("DatasetUnchanged", l > 1 \/ Unchanged, TRUE)
            /\ Check("WindowsArePermutations", LastWindowPerm, TRUE)
            /\ Check("SkipShuffleIsCyclic", cur # <<>> \/ SkipShuffleIsCyclic, TRUE)
            /\ Check("CountFormula", l > 1 \/ CountDocumented, TRUE)
            /\ Check("NeverTooMany", NeverTooMany, TRUE)
            /\ Check("TailDistinct", ~AtEndOfTrace \/ TailDistinct, TRUE)
            /\ Check("UsageBalanced", ~AtEndOfTrace \/ UsageBalanced, TRUE)
            /\ Check("Reshuffled", Reshuffled, TRUE)
            /\ OkSoFar
=============================================================================
