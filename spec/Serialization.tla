---------------------------- MODULE Serialization ----------------------------
(***************************************************************************)
(* fedjax.core.serialization (msgpack with extension types) as a decision  *)
(* table over abstract leaf kinds, composed over dict / list trees.        *)
(* A leaf kind says what the Python object is; Encode models the dispatch  *)
(* of msgpack_serialize (_msgpack_ext_pack, strict_types), Decode the      *)
(* dispatch of msgpack_deserialize.  The outcome of a round trip is        *)
(*   "equal"    same kind, dtype, shape and logical values                 *)
(*   "rejected" either side raises                                         *)
(*   "altered"  something comes back that is not equal to what went in     *)
(* Serves C16.  Toggles: KeepByteOrder (the byte order of an array is      *)
(* preserved / normalised), CheckEveryElement (object arrays are checked   *)
(* element by element, not only their first element), StrictTypes.         *)
(***************************************************************************)
EXTENDS Integers, Sequences, FiniteSets, TLC, Json

CONSTANTS MaxLeaves, KeepByteOrder, CheckEveryElement, StrictTypes

Supported == {"nd_num_native", "nd_num_swapped", "nd_num_fortran", "nd_num_strided", "nd_num_0d", "nd_num_empty", "nd_bytes_obj",
              "nd_bytes_obj_empty", "np_scalar", "py_int", "py_float", "py_bool", "py_str", "py_bytes", "py_none", "py_complex", "jax_array"}
Unsupported == {"tuple", "nd_str", "nd_struct", "nd_obj_mixed"}
Kinds == Supported \cup Unsupported
Containers == {"leaf", "dict", "list", "dict_of_list"}

VARIABLES tree, outcome, phase
vars == <<tree, outcome, phase>>

Init == /\ tree \in [shape : Containers, leaves : UNION {[1..k -> Kinds] : k \in 1..MaxLeaves}]
        /\ (tree.shape = "leaf" => Len(tree.leaves) = 1)
        /\ outcome = <<>> /\ phase = "todo"

\* the round trip of one leaf
LeafOutcome(k) ==
  CASE k \in {"nd_num_native", "nd_num_fortran", "nd_num_strided", "nd_num_0d", "nd_num_empty", "jax_array"} -> "equal"   \* (shape, dtype name, C-order bytes)
    [] k = "nd_num_swapped" -> IF KeepByteOrder THEN "equal" ELSE "altered"      \* dtype.name drops the byte order, tobytes keeps it
    [] k \in {"nd_bytes_obj", "nd_bytes_obj_empty"} -> "equal"
    [] k = "nd_obj_mixed" -> IF CheckEveryElement THEN "rejected" ELSE "altered"   \* only flat[0] is type-checked
    [] k \in {"np_scalar", "py_complex"} -> "equal"                                \* extension types
    [] k \in {"py_int", "py_float", "py_bool", "py_str", "py_bytes", "py_none"} -> "equal"   \* msgpack natives
    [] k = "tuple" -> IF StrictTypes THEN "rejected" ELSE "altered"                \* would come back as a list
    [] k \in {"nd_str", "nd_struct"} -> "rejected"
\* a tree is serialised leaf by leaf; one rejection rejects the whole call, one alteration alters the result
Combine(os) == IF \E i \in 1..Len(os) : os[i] = "rejected" THEN "rejected"
               ELSE IF \E i \in 1..Len(os) : os[i] = "altered" THEN "altered" ELSE "equal"
RoundTripStep == /\ phase = "todo"
                 /\ outcome' = [i \in 1..Len(tree.leaves) |-> LeafOutcome(tree.leaves[i])]
                 /\ phase' = "done" /\ UNCHANGED tree
Next == RoundTripStep
Spec == Init /\ [][Next]_vars

Done == phase = "done"
AllSupported == \A i \in 1..Len(tree.leaves) : tree.leaves[i] \in Supported
\* every supported value round-trips exactly
RoundTrip == (Done /\ AllSupported) => Combine(outcome) = "equal"
\* nothing is ever silently altered
NeverSilentlyAlters == Done => Combine(outcome) # "altered"
\* a tree with an unsupported leaf is rejected
Rejects == (Done /\ ~AllSupported) => Combine(outcome) = "rejected"
Emit == Done => PrintT("JSON " \o ToJson([shape |-> tree.shape, leaves |-> tree.leaves, expect |-> Combine(outcome)]))
=============================================================================
