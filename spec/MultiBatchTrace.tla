--------------------------- MODULE MultiBatchTrace ---------------------------
(* Trace validation for MultiBatch: one trace = one real run of             *)
(* padded_batch_client_datasets / padded_batch_federated_data; one event    *)
(* per yielded batch, "Error" if a ValueError escaped, then End.            *)
EXTENDS MultiBatch, TraceBatch

tvars == <<vars, tid, l>>

TraceInit == /\ BatchInit
             /\ sizes = Traces[tid].sizes /\ bs = Traces[tid].bs /\ k = Traces[tid].k /\ bad = Traces[tid].bad
             /\ ci = 1 /\ start = 0 /\ cbuf = <<>> /\ pieces = 0 /\ out = <<>> /\ phase = "client"

Emits == Len(out') = Len(out) + 1 /\ out'[Len(out')] = [ids |-> Ev.ids, mask |-> Ev.mask]
TBatch == /\ IsEvent("Batch")
          /\ (EmitBufHead \/ EmitWhole \/ Flush) /\ Emits
          /\ Ev.padzero /\ Ev.feat_ok
TError == IsEvent("Error") /\ Ev.kind = "ValueError" /\ Reject
TEnd == IsEvent("End") /\ phase \in {"done", "rejected"} /\ UNCHANGED vars
\* freedom (DESIGN 3.7): when only empty pieces are buffered at the end, emitting one fully masked batch or
\* nothing are both accepted
FlushNothing == /\ phase = "client" /\ ci > Len(sizes) /\ cbuf = <<>>
                /\ phase' = "done" /\ UNCHANGED <<sizes, bs, k, bad, ci, start, cbuf, pieces, out>>
Silent == /\ \/ Fits \/ NoBuf \/ BufTail
             \/ (Flush /\ out' = out)
             \/ FlushNothing
          /\ UNCHANGED <<tid, l>>
TraceNext == TBatch \/ TError \/ TEnd \/ Silent

Verdicts == /\ Progress(<<phase, ci, start, Len(cbuf), Len(out)>>)
            /\ Check("ConcatPreserved", ConcatPreserved, TRUE)
            /\ Check("PrefixPreserved", PrefixPreserved, TRUE)
            /\ Check("AllButLastFull", AllButLastFull, TRUE)
            /\ Check("LastPaddedByBucket", LastPaddedByBucket, TRUE)
            /\ Check("MaskIsPrefix", MaskIsPrefix, TRUE)
            /\ Check("MismatchRejected", MismatchRejected, TRUE)
            /\ OkSoFar
=============================================================================
