---------------------------- MODULE ShuffleBatch ----------------------------
(***************************************************************************)
(* ClientDataset.shuffle_repeat_batch (ShuffleRepeatBatchView.__iter__) at *)
(* the grain of the code: Refill (shuffle of the index buffer, only when   *)
(* it is exhausted), Take (copy min(available, missing) indices), Emit     *)
(* (one batch).  Examples are ids 1..N.  Serves C04.                       *)
(* NoneVal stands for Python's None in num_epochs / num_steps.             *)
(* Toggles: RefillOnlyWhenEmpty (FALSE: may reshuffle a half-used buffer), *)
(*          CeilCount (FALSE: floor instead of ceil when not dropping),    *)
(*          MinOfLimits (FALSE: max of the two step limits),               *)
(*          ZeroStepsIsZero (FALSE: num_steps = 0 treated like None).      *)
(***************************************************************************)
EXTENDS Integers, Sequences, FiniteSets, TLC

CONSTANTS MaxN, MaxBS, MaxEpochs, MaxSteps,
          AllPerms,    \* TRUE: Refill may draw any permutation; FALSE: only the identity (count sweeps)
          RefillOnlyWhenEmpty, CeilCount, MinOfLimits, ZeroStepsIsZero

NoneVal == 0 - 1

VARIABLES n, bs, epochs, steps, drop, skip,   \* input (hyper-parameters)
          buf, i,                             \* index buffer and start of its unused part
          cur,                                \* the batch being filled
          nsteps,                             \* batches emitted
          drawn,                              \* all indices drawn so far (flattened stream)
          phase

vars == <<n, bs, epochs, steps, drop, skip, buf, i, cur, nsteps, drawn, phase>>

Identity(m) == [j \in 1..m |-> j]
Perms(m) == Permutations(1..m)
IsPermOf(p, m) == DOMAIN p = 1..m /\ {p[j] : j \in 1..m} = 1..m
Min(a, b) == IF a < b THEN a ELSE b
Max(a, b) == IF a > b THEN a ELSE b

(* ShuffleRepeatBatchView.__init__: the number of batches as the code computes it; NoneVal = unbounded *)
FromEpochs == IF drop THEN (n * epochs) \div bs
              ELSE IF CeilCount THEN (n * epochs + bs - 1) \div bs ELSE (n * epochs) \div bs
StepsGiven == steps # NoneVal /\ (ZeroStepsIsZero \/ steps # 0)
NumSteps == IF epochs # NoneVal
            THEN IF StepsGiven THEN (IF MinOfLimits THEN Min(steps, FromEpochs) ELSE Max(steps, FromEpochs))
                 ELSE FromEpochs
            ELSE IF steps # NoneVal THEN steps ELSE NoneVal

(* the documented number of batches, stated without arithmetic tricks: as few batches as needed to go over the
   dataset `epochs` times (dropping: as many full batches as fit), capped by num_steps *)
DeclFromEpochs == IF drop THEN CHOOSE c \in 0..(n * epochs) : c * bs <= n * epochs /\ (c + 1) * bs > n * epochs
                  ELSE CHOOSE c \in 0..(n * epochs) : c * bs >= n * epochs /\ (c = 0 \/ (c - 1) * bs < n * epochs)
DeclSteps == IF epochs # NoneVal
             THEN IF steps # NoneVal THEN Min(steps, DeclFromEpochs) ELSE DeclFromEpochs
             ELSE steps

Init == /\ n \in 1..MaxN /\ bs \in 1..MaxBS
        /\ epochs \in {NoneVal} \cup 1..MaxEpochs /\ steps \in {NoneVal} \cup 0..MaxSteps
        /\ ~(epochs = NoneVal /\ steps = NoneVal)
        /\ drop \in BOOLEAN /\ skip \in BOOLEAN
        /\ buf = Identity(n) /\ i = n /\ cur = <<>> /\ nsteps = 0 /\ drawn = <<>> /\ phase = "loop"

(* while desired_num_steps is None or num_steps < desired_num_steps *)
Loop == /\ phase = "loop"
        /\ phase' = IF NumSteps = NoneVal \/ nsteps < NumSteps THEN "fill" ELSE "done"
        /\ UNCHANGED <<n, bs, epochs, steps, drop, skip, buf, i, cur, nsteps, drawn>>
(* rng.shuffle(buf); i = 0 -- only when no unused index is left *)
Refill(p) == /\ phase = "fill" /\ Len(cur) < bs
             /\ (RefillOnlyWhenEmpty => i = n)
             /\ (~RefillOnlyWhenEmpty => i >= 1)
             /\ IsPermOf(p, n) /\ (skip => p = Identity(n))
             /\ buf' = [j \in 1..n |-> buf[p[j]]] /\ i' = 0
             /\ UNCHANGED <<n, bs, epochs, steps, drop, skip, cur, nsteps, drawn, phase>>
(* copy min(available, missing) indices *)
Take == /\ phase = "fill" /\ Len(cur) < bs /\ i < n
        /\ LET used == Min(n - i, bs - Len(cur))
               got == SubSeq(buf, i + 1, i + used)
           IN /\ cur' = cur \o got /\ drawn' = drawn \o got /\ i' = i + used
        /\ UNCHANGED <<n, bs, epochs, steps, drop, skip, buf, nsteps, phase>>
Emit == /\ phase = "fill" /\ Len(cur) = bs
        /\ cur' = <<>> /\ nsteps' = nsteps + 1 /\ phase' = "loop"
        /\ UNCHANGED <<n, bs, epochs, steps, drop, skip, buf, i, drawn>>

RefillStep == IF AllPerms THEN \E p \in Perms(n) : Refill(p) ELSE Refill(Identity(n))
Next == Loop \/ RefillStep \/ Take \/ Emit
Spec == Init /\ [][Next]_vars

(* ---- properties (C04) ---- *)
Window(w) == SubSeq(drawn, (w - 1) * n + 1, w * n)
NumWindows == Len(drawn) \div n
IsPerm(s) == Len(s) = n /\ {s[j] : j \in 1..Len(s)} = 1..n
Count(x, s) == Cardinality({j \in 1..Len(s) : s[j] = x})
\* every complete window of N consecutive draws is a permutation of the dataset
WindowsArePermutations == \A w \in 1..NumWindows : IsPerm(Window(w))
\* ... and the incomplete tail never repeats an example
TailDistinct == LET tail == SubSeq(drawn, NumWindows * n + 1, Len(drawn))
                IN Cardinality({tail[j] : j \in 1..Len(tail)}) = Len(tail)
\* usage counts never differ by more than one
UsageBalanced == LET counts == {Count(a, drawn) : a \in 1..n} IN \A x, y \in counts : x - y <= 1
SkipShuffleIsCyclic == skip => \A j \in 1..Len(drawn) : drawn[j] = ((j - 1) % n) + 1
CountFormula == phase = "done" => nsteps = DeclSteps
NeverTooMany == DeclSteps # NoneVal => nsteps <= DeclSteps
DrawnIsBatches == Len(drawn) = nsteps * bs + Len(cur)
\* bounded exploration of the unbounded streams
Bounded == nsteps <= MaxSteps + 2 /\ Len(drawn) <= 3 * MaxN + MaxBS
=============================================================================
