------------------------------- MODULE FedData -------------------------------
(***************************************************************************)
(* fedjax.FederatedData views: a logical dataset {client id -> examples}   *)
(* and the views derived from it by slice / subset / preprocess_client /   *)
(* preprocess_batch.  Client ids are abstracted to their ranks 1..N in     *)
(* byte order; a slice bound is abstracted to its "low rank" 1..N+1 (one   *)
(* plus the number of ids strictly below it; a bound that is itself the    *)
(* id of rank r has low rank r), NoBound = Python None.                    *)
(*                                                                         *)
(* Each view is carried in the TWO representations the implementations     *)
(* use - the materialised id set (in-memory, subset wrapper) and the       *)
(* (start, stop) pair maintained by intersect_slice_ranges (SQLite) - and  *)
(* the specification checks that they define the same mapping.             *)
(* Every action appends a new view; existing views never change.           *)
(* Serves C08.  Toggle IntersectRanges (FALSE: a re-slice replaces the     *)
(* range instead of intersecting it).                                      *)
(***************************************************************************)
EXTENDS Integers, Sequences, FiniteSets, TLC, Json

CONSTANTS N,              \* number of clients of the logical dataset
          MaxDepth,       \* number of view operations in a history
          MaxSubset,      \* subsets are enumerated up to this size (and their complements)
          IntersectRanges

NoBound == 0 - 1
Ranks == 1..N
Bounds == {NoBound} \cup 1..(N + 1)

VARIABLES views,   \* sequence of views
          hist     \* the operations that created them (for the generator)
vars == <<views, hist>>

\* mat : the materialised id set, filtered at every step (in-memory dataset, subset wrapper)
\* lo, hi, rsub : the range accumulated by intersect_slice_ranges since the root (SQLite dataset) and the id set of
\*                the innermost subset wrapper as it was given, NOT filtered by later slices
Root == [mat |-> Ranks, lo |-> NoBound, hi |-> NoBound, rsub |-> Ranks, cpre |-> <<>>, bpre |-> <<>>, parent |-> 0]
Init == views = <<Root>> /\ hist = <<>>

Max(a, b) == IF a > b THEN a ELSE b
Min(a, b) == IF a < b THEN a ELSE b
InRange(r, lo, hi) == (lo = NoBound \/ lo <= r) /\ (hi = NoBound \/ r < hi)
\* federated_data.intersect_slice_ranges
NewLo(cur, new) == IF ~IntersectRanges THEN new
                   ELSE IF cur = NoBound THEN new ELSE IF new = NoBound THEN cur ELSE Max(cur, new)
NewHi(cur, new) == IF ~IntersectRanges THEN new
                   ELSE IF cur = NoBound THEN new ELSE IF new = NoBound THEN cur ELSE Min(cur, new)

\* the client ids a view exposes, by each representation
IdsMat(v) == v.mat
IdsRange(v) == {r \in v.rsub : InRange(r, v.lo, v.hi)}

Slice(i, a, b) == /\ i \in 1..Len(views) /\ a \in Bounds /\ b \in Bounds
                  /\ LET v == views[i] IN
                     views' = Append(views, [v EXCEPT !.mat = {r \in v.mat : InRange(r, a, b)},
                                                      !.lo = NewLo(v.lo, a), !.hi = NewHi(v.hi, b),
                                                      !.parent = i])
                  /\ hist' = Append(hist, [op |-> "slice", v |-> i, a |-> a, b |-> b])
\* SubsetFederatedData(view, S) with validation: S must be a subset of the view's ids
Subset(i, S) == /\ i \in 1..Len(views) /\ S \subseteq IdsMat(views[i])
                /\ LET v == views[i] IN
                   views' = Append(views, [v EXCEPT !.mat = S, !.rsub = S, !.parent = i])
                /\ hist' = Append(hist, [op |-> "subset", v |-> i, s |-> S])
PreClient(i, t) == /\ i \in 1..Len(views)
                   /\ views' = Append(views, [views[i] EXCEPT !.cpre = Append(@, t), !.parent = i])
                   /\ hist' = Append(hist, [op |-> "pre_client", v |-> i, t |-> t])
PreBatch(i, t) == /\ i \in 1..Len(views)
                  /\ views' = Append(views, [views[i] EXCEPT !.bpre = Append(@, t), !.parent = i])
                  /\ hist' = Append(hist, [op |-> "pre_batch", v |-> i, t |-> t])

SmallSets(S) == {T \in SUBSET S : Cardinality(T) <= MaxSubset \/ Cardinality(S \ T) <= 1}
More == Len(hist) < MaxDepth
SliceStep == More /\ \E i \in 1..Len(views) : \E a, b \in Bounds : Slice(i, a, b)
SubsetStep == More /\ \E i \in 1..Len(views) : \E S \in SmallSets(IdsMat(views[i])) : Subset(i, S)
PreClientStep == More /\ \E i \in 1..Len(views) : \E t \in 1..2 : PreClient(i, t)
PreBatchStep == More /\ \E i \in 1..Len(views) : \E t \in 3..4 : PreBatch(i, t)
Next == SliceStep \/ SubsetStep \/ PreClientStep \/ PreBatchStep
Spec == Init /\ [][Next]_vars

(* ---- properties (C08) ---- *)
\* the two representations expose the same client ids
RepresentationsAgree == \A i \in 1..Len(views) : IdsMat(views[i]) = IdsRange(views[i])
\* a view never exposes a client its parent does not
SliceNeverEnlarges == \A i \in 2..Len(views) : IdsRange(views[i]) \subseteq IdsRange(views[views[i].parent])
                                               /\ IdsMat(views[i]) \subseteq IdsMat(views[views[i].parent])
\* preprocessors accumulate in registration order
PreprocessOrder == \A i \in 2..Len(views) :
                      LET p == views[views[i].parent] IN
                      /\ Len(views[i].cpre) >= Len(p.cpre) /\ SubSeq(views[i].cpre, 1, Len(p.cpre)) = p.cpre
                      /\ Len(views[i].bpre) >= Len(p.bpre) /\ SubSeq(views[i].bpre, 1, Len(p.bpre)) = p.bpre
\* deriving a view never changes an existing one
ParentUnchanged == [][\A i \in 1..Len(views) : views'[i] = views[i]]_vars

\* what every access path must show for a view: ids, and for each id the tags its examples went through
Expected(v) == [ids |-> IdsMat(v), tags |-> v.cpre \o v.bpre]
Emit == (Len(hist) = MaxDepth) =>
           PrintT("JSON " \o ToJson([hist |-> hist, views |-> [i \in 1..Len(views) |-> Expected(views[i])]]))
=============================================================================
