------------------------------ MODULE BufShuffle ------------------------------
(***************************************************************************)
(* fedjax.core.client_datasets.buffered_shuffle: fill a buffer of B items, *)
(* shuffle it, then for every further item emit buf[0], put the item at    *)
(* buf[0] and swap it with a random position; finally drain the buffer.    *)
(* Items are 1..L in source order.  Serves C15 (buffered shuffling).       *)
(* Toggle DrainAll (FALSE: only the head of the buffer is drained at the   *)
(* end, the rest is lost).                                                 *)
(***************************************************************************)
EXTENDS Integers, Sequences, FiniteSets, TLC

CONSTANTS MaxL, MaxB, AllPerms, DrainAll

VARIABLES len, b, src, buf, out, phase
vars == <<len, b, src, buf, out, phase>>

Min(x, y) == IF x < y THEN x ELSE y
Init == /\ len \in 0..MaxL /\ b \in 1..MaxB
        /\ src = [j \in 1..len |-> j] /\ buf = <<>> /\ out = <<>> /\ phase = "fill"

IsPermOf(p, m) == DOMAIN p = 1..m /\ {p[j] : j \in 1..m} = 1..m
\* buf = list(islice(it, B)); rng.shuffle(buf)
Fill(p) == /\ phase = "fill"
           /\ LET m == Min(b, len) IN
              /\ IsPermOf(p, m)
              /\ buf' = [j \in 1..m |-> src[p[j]]]
              /\ src' = SubSeq(src, m + 1, len)
           /\ phase' = "stream"
           /\ UNCHANGED <<len, b, out>>
\* for i in it: r, buf[0] = buf[0], i; swap = rng.randint(B); if swap < B-1: swap buf[swap], buf[0]; yield r
\* (Python's buf[0] is buf[1] here; a swap index s in 0..B-1 addresses buf[s+1])
Swap(s) == /\ phase = "stream" /\ src # <<>> /\ s \in 0..(b - 1)
           /\ LET item == Head(src)
                  b1 == [buf EXCEPT ![1] = item]
              IN /\ out' = Append(out, buf[1])
                 /\ buf' = IF s < b - 1 THEN [b1 EXCEPT ![s + 1] = b1[1], ![1] = b1[s + 1]] ELSE b1
           /\ src' = Tail(src)
           /\ UNCHANGED <<len, b, phase>>
\* for i in buf: yield i
Drain == /\ phase = "stream" /\ src = <<>> /\ buf # <<>>
         /\ out' = Append(out, Head(buf))
         /\ buf' = IF DrainAll THEN Tail(buf) ELSE <<>>
         /\ UNCHANGED <<len, b, src, phase>>
Finish == /\ phase = "stream" /\ src = <<>> /\ buf = <<>> /\ phase' = "done"
          /\ UNCHANGED <<len, b, src, buf, out>>

FillStep == IF AllPerms THEN \E p \in Permutations(1..Min(b, len)) : Fill(p) ELSE Fill([j \in 1..Min(b, len) |-> j])
SwapStep == \E s \in 0..(b - 1) : Swap(s)
Next == FillStep \/ SwapStep \/ Drain \/ Finish
Spec == Init /\ [][Next]_vars

Range(s) == {s[j] : j \in 1..Len(s)}
\* nothing is lost or duplicated at any time
Conservation == /\ Range(out) \cup Range(buf) \cup Range(src) = 1..len
                /\ Len(out) + Len(buf) + Len(src) = len
EmitsEachOnce == phase = "done" => (Len(out) = len /\ Range(out) = 1..len)
\* an item can be emitted at most B - 1 positions early... and is never delayed before its buffer slot exists
NotBeforeBuffered == \A j \in 1..Len(out) : out[j] <= j + b - 1
=============================================================================
