---------------------------- MODULE ForEachClient ----------------------------
(***************************************************************************)
(* fedjax.core.for_each_client backends.  The client program is the FREE   *)
(* one: the step state is the sequence of tokens consumed so far, so any   *)
(* lost, duplicated, reordered or padding token is visible in the output.  *)
(*   init(shared, client_input)  = <<client_input>>                         *)
(*   step(state, batch)          = (state \o <<batch>>, <<Len(state), batch>>)*)
(*   final(shared, state)        = state                                    *)
(* Client c (ids 1..K, in input order) has nb[c] batches; its j-th batch   *)
(* is the token <<c, j>>.  PADB is the all-zero padding batch, PADC the    *)
(* all-zero padding client input.                                          *)
(*                                                                         *)
(* pmap backend (ForEachClientPmapBackend, _blockify): clients are sorted  *)
(* by decreasing batch count (stable), cut into blocks of Devices clients, *)
(* short blocks padded with padding clients, short clients padded with     *)
(* padding batches under a mask; one action per pmapped call.              *)
(* jit backend: sequential, with a buffer table: init copies its result,   *)
(* step and final DONATE the state.                                        *)
(* Serves C02 (backends) - C01 relies on it.                               *)
(* Toggles: MaskStep (masked step keeps the old state / zero result),      *)
(* DropPadding (padding clients are not yielded), Truncate (step results   *)
(* cut to the real batch count), CopyInit (jit init copies), StableSort.   *)
(***************************************************************************)
EXTENDS Integers, Sequences, FiniteSets, TLC, Json

CONSTANTS MaxClients, MaxBatches, Devices, MaskStep, DropPadding, Truncate, CopyInit

PADB == <<0, 0>>
PADC == 0
Init0(ci) == <<ci>>
StepSt(s, b) == Append(s, b)
StepRes(s, b) == <<Len(s), b>>
RECURSIVE FoldTo(_, _, _)
FoldTo(s, c, j) == IF j = 0 THEN s ELSE StepSt(FoldTo(s, c, j - 1), <<c, j>>)
Fold(c, n) == FoldTo(Init0(c), c, n)
FoldRes(c, n) == [j \in 1..n |-> <<j, <<c, j>>>>]

VARIABLES backend, nb, aliasInit,
          phase, blocks, bi, pstate, pres, j, yielded,       \* pmap
          cur, jstate, jres, jbuf, deleted                   \* jit: current client, state, results, state buffer, donated buffers
vars == <<backend, nb, aliasInit, phase, blocks, bi, pstate, pres, j, yielded, cur, jstate, jres, jbuf, deleted>>

Profiles == UNION {[1..k -> 0..MaxBatches] : k \in 0..MaxClients}
K == Len(nb)

\* stable sort of 1..K by decreasing number of batches (list.sort(key, reverse=True) keeps input order of equal keys)
RECURSIVE InsertDesc(_, _)
InsertDesc(sorted, c) == IF sorted = <<>> THEN <<c>>
                         ELSE IF nb[c] > nb[Head(sorted)] THEN <<c>> \o sorted
                         ELSE <<Head(sorted)>> \o InsertDesc(Tail(sorted), c)
RECURSIVE SortDesc(_)
SortDesc(k) == IF k = 0 THEN <<>> ELSE InsertDesc(SortDesc(k - 1), k)
\* note: inserting client k after all clients with >= as many batches keeps equal keys in input order
Chunk(s) == [i \in 1..((Len(s) + Devices - 1) \div Devices) |->
               LET lo == (i - 1) * Devices + 1
                   hi == IF i * Devices < Len(s) THEN i * Devices ELSE Len(s)
                   real == SubSeq(s, lo, hi)
               IN [ids |-> real \o [x \in 1..(Devices - Len(real)) |-> PADC],
                   mask |-> [x \in 1..Devices |-> x <= Len(real)]]]
NumB(blk, k) == IF blk.mask[k] THEN nb[blk.ids[k]] ELSE 0

\* caller-owned buffers of the jit model: one per client input (id c); library buffers get ids > MaxClients
CallerBufs == 1..MaxClients

Init == /\ backend \in {"pmap", "jit"}
        /\ nb \in Profiles
        /\ aliasInit \in BOOLEAN            \* the user's client_init returns (an alias of) its client_input
        /\ phase = (IF backend = "pmap" THEN "blockify" ELSE "jnext")
        /\ blocks = <<>> /\ bi = 0 /\ pstate = <<>> /\ pres = <<>> /\ j = 0 /\ yielded = {}
        /\ cur = 0 /\ jstate = <<>> /\ jres = <<>> /\ jbuf = 0 /\ deleted = {}

(* ---- pmap backend ---- *)
Blockify == /\ phase = "blockify"
            /\ blocks' = Chunk(SortDesc(K)) /\ bi' = 1 /\ phase' = "pinit"
            /\ UNCHANGED <<backend, nb, aliasInit, pstate, pres, j, yielded, cur, jstate, jres, jbuf, deleted>>
PInit == /\ phase = "pinit"
         /\ IF bi > Len(blocks) THEN phase' = "done" /\ UNCHANGED <<pstate, pres, j>>
            ELSE /\ pstate' = [k \in 1..Devices |-> Init0(blocks[bi].ids[k])]
                 /\ pres' = [k \in 1..Devices |-> <<>>] /\ j' = 1 /\ phase' = "pstep"
         /\ UNCHANGED <<backend, nb, aliasInit, blocks, bi, yielded, cur, jstate, jres, jbuf, deleted>>
MaxB(blk) == NumB(blk, 1)
PStep == /\ phase = "pstep"
         /\ LET blk == blocks[bi] IN
            IF j > MaxB(blk) THEN phase' = "yield" /\ UNCHANGED <<pstate, pres, j>>
            ELSE /\ LET tok(k) == IF j <= NumB(blk, k) THEN <<blk.ids[k], j>> ELSE PADB
                        m(k) == j <= NumB(blk, k)
                    IN /\ pstate' = [k \in 1..Devices |-> IF m(k) \/ ~MaskStep THEN StepSt(pstate[k], tok(k)) ELSE pstate[k]]
                       /\ pres' = [k \in 1..Devices |-> Append(pres[k], IF m(k) \/ ~MaskStep THEN StepRes(pstate[k], tok(k)) ELSE <<0, PADB>>)]
                 /\ j' = j + 1 /\ UNCHANGED phase
         /\ UNCHANGED <<backend, nb, aliasInit, blocks, bi, yielded, cur, jstate, jres, jbuf, deleted>>
Yield == /\ phase = "yield"
         /\ LET blk == blocks[bi] IN
            yielded' = yielded \cup {[id |-> blk.ids[k], out |-> pstate[k],
                                      res |-> IF Truncate THEN SubSeq(pres[k], 1, NumB(blk, k)) ELSE pres[k]]
                                     : k \in {x \in 1..Devices : blk.mask[x] \/ ~DropPadding}}
         /\ bi' = bi + 1 /\ phase' = "pinit"
         /\ UNCHANGED <<backend, nb, aliasInit, blocks, pstate, pres, j, cur, jstate, jres, jbuf, deleted>>

(* ---- jit backend ---- *)
JNext == /\ phase = "jnext"
         /\ IF cur = K THEN phase' = "done" /\ UNCHANGED <<cur, jstate, jres, jbuf>>
            ELSE /\ cur' = cur + 1 /\ jstate' = Init0(cur + 1) /\ jres' = <<>>
                 \* jit_client_init: the state lives in the caller's buffer only if init aliases it and no copy is made
                 /\ jbuf' = IF aliasInit /\ ~CopyInit THEN cur + 1 ELSE MaxClients + 1
                 /\ phase' = "jstep"
         /\ UNCHANGED <<backend, nb, aliasInit, blocks, bi, pstate, pres, j, yielded, deleted>>
\* jit_client_step(state, batch), donate_argnums = 0: the buffer holding the state is donated
JStep == /\ phase = "jstep" /\ Len(jres) < nb[cur]
         /\ LET b == <<cur, Len(jres) + 1>> IN
            /\ jstate' = StepSt(jstate, b) /\ jres' = Append(jres, StepRes(jstate, b))
         /\ deleted' = deleted \cup {jbuf} /\ jbuf' = MaxClients + 1
         /\ UNCHANGED <<backend, nb, aliasInit, phase, blocks, bi, pstate, pres, j, yielded, cur>>
\* jit_client_final(shared, state), donate_argnums = 1
JFinal == /\ phase = "jstep" /\ Len(jres) = nb[cur]
          /\ yielded' = yielded \cup {[id |-> cur, out |-> jstate, res |-> jres]}
          /\ deleted' = deleted \cup {jbuf}
          /\ phase' = "jnext"
          /\ UNCHANGED <<backend, nb, aliasInit, blocks, bi, pstate, pres, j, cur, jstate, jres, jbuf>>

Next == Blockify \/ PInit \/ PStep \/ Yield \/ JNext \/ JStep \/ JFinal
Spec == Init /\ [][Next]_vars

(* ---- properties (C02) ---- *)
HasPad(seq) == Head(seq) = PADC \/ \E i \in 2..Len(seq) : seq[i] = PADB
Done == phase = "done"
ExactlyOnce == Done => /\ {y.id : y \in yielded} = 1..K
                       /\ Cardinality(yielded) = K
EqualsFold == Done => \A y \in yielded : y.id \in 1..K =>
                         /\ y.out = Fold(y.id, nb[y.id])
                         /\ y.res = FoldRes(y.id, nb[y.id])
NoPadObservable == \A y \in yielded : /\ ~HasPad(y.out)
                                      /\ \A t \in 1..Len(y.res) : y.res[t][2] # PADB
CallerBuffersAlive == deleted \cap CallerBufs = {}
Emit == (Done /\ backend = "pmap" /\ ~aliasInit) =>
           PrintT("JSON " \o ToJson([nb |-> nb, blocks |-> [i \in 1..Len(blocks) |-> blocks[i].ids],
                                     yielded |-> [c \in 1..K |-> CHOOSE y \in yielded : y.id = c]]))
=============================================================================
