----------------------------- MODULE FedDataTrace -----------------------------
(* Trace validation for FedData: one trace = one random history of view      *)
(* operations applied simultaneously to the in-memory, SQLite-backed and     *)
(* subset-wrapped real datasets.  After every operation the driver           *)
(* re-observes EVERY view created so far on every implementation through     *)
(* every access path; the event carries, per view and implementation, the    *)
(* ids seen, the preprocessing tags seen and the access-path flags.          *)
EXTENDS FedData, TraceBatch, SequencesExt

tvars == <<vars, tid, l>>
TraceInit == BatchInit /\ views = <<Root>> /\ hist = <<>>

SortedIds(v) == SetToSortSeq(IdsMat(v), <)
\* every implementation shows, for view j, exactly the specification's ids and tags, through every access path
ObsOk(obs) == /\ Len(obs) = Len(views')
              /\ \A j \in 1..Len(obs) : \A o \in {obs[j][x] : x \in 1..Len(obs[j])} :
                    /\ o.ids = SortedIds(views'[j])
                    /\ (o.ids # <<>> /\ o.has_rows) => o.tags = views'[j].cpre \o views'[j].bpre
                    /\ o.paths_agree /\ o.keyerror_outside /\ o.deterministic /\ o.shuffled_once /\ o.sizes_ok


TSlice == IsEvent("slice") /\ Slice(Ev.v, Ev.a, Ev.b) /\ ObsOk(Ev.obs)
TSubset == IsEvent("subset") /\ Subset(Ev.v, ToSet(Ev.s)) /\ ObsOk(Ev.obs)
\* a subset that is not contained in the view must be refused with ValueError
TSubsetBad == /\ IsEvent("subset_bad") /\ ~(ToSet(Ev.s) \subseteq IdsMat(views[Ev.v]))
              /\ \A x \in 1..Len(Ev.raised) : Ev.raised[x] = "ValueError"
              /\ UNCHANGED vars
TPreClient == IsEvent("pre_client") /\ PreClient(Ev.v, Ev.t) /\ ObsOk(Ev.obs)
TPreBatch == IsEvent("pre_batch") /\ PreBatch(Ev.v, Ev.t) /\ ObsOk(Ev.obs)
TEnd == IsEvent("End") /\ UNCHANGED vars
TraceNext == TSlice \/ TSubset \/ TSubsetBad \/ TPreClient \/ TPreBatch \/ TEnd

Verdicts == /\ Progress(<<Len(views), [j \in 1..Len(views) |-> <<IdsMat(views[j]), views[j].cpre \o views[j].bpre>>]>>)
            /\ Check("RepresentationsAgree", RepresentationsAgree, TRUE)
            /\ Check("SliceNeverEnlarges", SliceNeverEnlarges, TRUE)
            /\ Check("PreprocessOrder", PreprocessOrder, TRUE)
            /\ OkSoFar
=============================================================================
