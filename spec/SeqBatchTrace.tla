--------------------------- MODULE SeqBatchTrace ---------------------------
(* Trace validation for SeqBatch: one trace = one iteration of a real     *)
(* BatchView / PaddedBatchView; one event per yielded batch (ids decoded  *)
(* from the real feature arrays, the real mask), then End.                *)
EXTENDS SeqBatch, TraceBatch

tvars == <<vars, tid, l>>

TraceInit == /\ BatchInit
             /\ n = Traces[tid].n /\ bs = Traces[tid].bs /\ k = Traces[tid].k
             /\ mode = Traces[tid].mode /\ drop = Traces[tid].drop
             /\ phase = IF mode = "padded" THEN "pick" ELSE "slice"
             /\ high = 0 /\ low = 0 /\ cnt = 0 /\ fbs = 0 /\ start = 0 /\ out = <<>>

TBatch == /\ IsEvent("Batch") /\ Slice
          /\ Len(out') = Len(out) + 1
          /\ out'[Len(out')] = [ids |-> Ev.ids, mask |-> Ev.mask]
          /\ Ev.padzero /\ Ev.feat_ok      \* padded rows all zero; every feature is the preprocessed example, dtype and shape kept
TEnd == /\ IsEvent("End") /\ phase = "done"
        /\ Ev.same_again /\ Ev.dataset_unchanged
        /\ UNCHANGED vars
Silent == /\ \/ Pick \/ BucketStep \/ BucketDone \/ Done
             \/ (Slice /\ out' = out)
          /\ UNCHANGED <<tid, l>>
TraceNext == TBatch \/ TEnd \/ Silent

Verdicts == /\ Progress(<<phase, start, fbs, Len(out)>>)
            /\ Check("PartitionInOrder", PartitionInOrder, TRUE)
            /\ Check("AllButLastFull", AllButLastFull, TRUE)
            /\ Check("DropOnlyIncomplete", DropOnlyIncomplete, TRUE)
            /\ Check("MaskIsPrefix", MaskIsPrefix, TRUE)
            /\ Check("FinalSizeRule", FinalSizeRule, TRUE)
            /\ Check("NoEmptyBatch", NoEmptyBatch, TRUE)
            /\ Check("BatchCount", BatchCount, TRUE)
            /\ OkSoFar
=============================================================================
