------------------------------ MODULE SeqBatch ------------------------------
(***************************************************************************)
(* ClientDataset.batch / padded_batch (BatchView, PaddedBatchView,         *)
(* _pick_final_batch_size) at the grain of the code: one action per        *)
(* iteration of the slicing loop and of the `high, low, n` bucket loop.    *)
(* Examples are the ids 1..N; 0 is a padded (all-zero) row.  Serves C03.   *)
(* Toggles: StrictFull (FALSE: `stop < size` instead of `<=`),             *)
(*          HalveFloor (FALSE: bucket sizes rounded up when halving).      *)
(***************************************************************************)
EXTENDS Integers, Sequences, FiniteSets, TLC, Json

CONSTANTS MaxN, MaxBS, MaxK, StrictFull, HalveFloor,
          ShortOnly    \* TRUE: only padded batching of datasets smaller than the batch size (the bucket rule on its own, large sizes)

VARIABLES n, bs, k, mode, drop,    \* the input, chosen in Init
          phase, high, low, cnt,   \* the bucket loop
          fbs,                     \* final batch size
          start, out               \* slicing loop, emitted batches [ids, mask]

vars == <<n, bs, k, mode, drop, phase, high, low, cnt, fbs, start, out>>

Init == /\ n \in 0..MaxN /\ bs \in 1..MaxBS /\ k \in 1..MaxK
        /\ mode \in {"batch", "padded"} /\ drop \in BOOLEAN
        /\ (mode = "padded" => ~drop) /\ (mode = "batch" => k = 1)
        /\ (ShortOnly => (mode = "padded" /\ n < bs))
        /\ phase = IF mode = "padded" THEN "pick" ELSE "slice"
        /\ high = 0 /\ low = 0 /\ cnt = 0 /\ fbs = 0 /\ start = 0 /\ out = <<>>

Half(x) == IF HalveFloor THEN x \div 2 ELSE (x + 1) \div 2

(* _pick_final_batch_size *)
Pick == /\ phase = "pick"
        /\ IF n % bs = 0 THEN /\ fbs' = bs /\ phase' = "slice" /\ UNCHANGED <<high, low, cnt>>
           ELSE /\ high' = bs /\ low' = Half(bs) /\ cnt' = 1 /\ phase' = "bucket" /\ UNCHANGED fbs
        /\ UNCHANGED <<n, bs, k, mode, drop, start, out>>
BucketStep == /\ phase = "bucket" /\ low >= n % bs /\ cnt < k
              /\ high' = low /\ low' = Half(low) /\ cnt' = cnt + 1
              /\ UNCHANGED <<n, bs, k, mode, drop, phase, fbs, start, out>>
BucketDone == /\ phase = "bucket" /\ ~(low >= n % bs /\ cnt < k)
              /\ fbs' = high /\ phase' = "slice"
              /\ UNCHANGED <<n, bs, k, mode, drop, high, low, cnt, start, out>>

Ids(a, b) == [i \in 1..(b - a) |-> a + i]       \* ids of rows a+1 .. b
Pad(ids, size) == ids \o [i \in 1..(size - Len(ids)) |-> 0]
MaskOf(real, size) == [i \in 1..size |-> i <= real]

(* one iteration of `for start in range(0, data_size, batch_size)` *)
Slice == /\ phase = "slice" /\ start < n
         /\ LET stop == start + bs
                full == IF StrictFull THEN stop <= n ELSE stop < n
                hi == IF stop <= n THEN stop ELSE n
                ids == Ids(start, hi)
            IN out' = IF mode = "padded"
                      THEN IF full THEN Append(out, [ids |-> ids, mask |-> MaskOf(bs, bs)])
                           ELSE Append(out, [ids |-> Pad(ids, fbs), mask |-> MaskOf(Len(ids), fbs)])
                      ELSE IF ~drop \/ full THEN Append(out, [ids |-> ids, mask |-> MaskOf(Len(ids), Len(ids))])
                           ELSE out
         /\ start' = start + bs
         /\ UNCHANGED <<n, bs, k, mode, drop, phase, high, low, cnt, fbs>>
Done == /\ phase = "slice" /\ start >= n /\ phase' = "done"
        /\ UNCHANGED <<n, bs, k, mode, drop, high, low, cnt, fbs, start, out>>

Next == Pick \/ BucketStep \/ BucketDone \/ Slice \/ Done
Spec == Init /\ [][Next]_vars

(* ---- declarative definitions ---- *)
RECURSIVE Flat(_)
Flat(s) == IF s = <<>> THEN <<>> ELSE Head(s) \o Flat(Tail(s))
RealRows(b) == SelectSeq(b.ids, LAMBDA x : x # 0)
Stream == Flat([i \in 1..Len(out) |-> RealRows(out[i])])
RECURSIVE HalveN(_, _)
HalveN(x, i) == IF i = 0 THEN x ELSE HalveN(x \div 2, i - 1)
Buckets == {HalveN(bs, i) : i \in 0..(k - 1)}
Rem == n % bs
DeclFinal == IF Rem = 0 THEN bs
             ELSE LET ok == {b \in Buckets : b >= Rem} IN CHOOSE b \in ok : \A c \in ok : b <= c

AtEnd == phase = "done"
(* the batches, padded rows removed, are exactly the examples, each once, in order *)
PartitionInOrder == AtEnd => Stream = (IF drop THEN Ids(0, n - Rem) ELSE Ids(0, n))
AllButLastFull == AtEnd => \A i \in 1..(Len(out) - 1) : Len(RealRows(out[i])) = bs /\ Len(out[i].ids) = bs
DropOnlyIncomplete == (AtEnd /\ drop) => \A i \in 1..Len(out) : Len(out[i].ids) = bs
MaskIsPrefix == \A i \in 1..Len(out) :
                  /\ Len(out[i].mask) = Len(out[i].ids)
                  /\ \A j \in 1..Len(out[i].ids) : out[i].mask[j] = (out[i].ids[j] # 0)
                  /\ \A j \in 1..(Len(out[i].ids) - 1) : out[i].mask[j + 1] => out[i].mask[j]
FinalSizeRule == (AtEnd /\ mode = "padded" /\ Len(out) > 0) => Len(out[Len(out)].ids) = DeclFinal
NoEmptyBatch == \A i \in 1..Len(out) : Len(RealRows(out[i])) >= 1
BatchCount == (AtEnd /\ mode = "padded") => Len(out) = (n + bs - 1) \div bs

(* generator: prints every final state once (leg R) *)
Emit == AtEnd => PrintT("JSON " \o ToJson([n |-> n, bs |-> bs, k |-> k, mode |-> mode, drop |-> drop, out |-> out]))
=============================================================================
