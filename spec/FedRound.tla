------------------------------ MODULE FedRound ------------------------------
(***************************************************************************)
(* One or more rounds of federated averaging (fedjax.algorithms.fed_avg)   *)
(* and its FedProx variant on the EXACT ISLAND: parameters are vectors of  *)
(* rationals, the per-example loss of leaf l is 1/2 (w_l - x_l)^2 (so the  *)
(* batch gradient is w_l - mean(x_l over the batch), which depends on the  *)
(* current parameters), optimizers are SGD(lr) and SGD-with-momentum       *)
(* (lr, beta) for clients and server.  The batch stream of every client is *)
(* an INPUT (sequence of batches, each a sequence of example indices): it  *)
(* is what the real shuffle_repeat_batch produced.                         *)
(*                                                                         *)
(* Structure follows the code: per client client_init (fresh optimizer     *)
(* state, the ROUND's server params), one client_step per batch,           *)
(* client_final (delta = server params - trained params), then the running *)
(* example-count-weighted sum; server_update applies the server optimizer  *)
(* to the mean delta (zero when no example was seen).  Clients are taken   *)
(* in an arbitrary order.  Serves C01, C12 (FedProx), C10.                 *)
(* Toggles: WeightByExamples, FreshClientOpt, RoundParams (clients start   *)
(* from the round's params), ZeroGuard, CarryServerOpt, ProxOnRound,       *)
(* AdvanceKey (a fresh key at every local step).  Parameter of the        *)
(* algorithm family, not a deviation: ApplyOnEmpty (TRUE for FedAvg: the   *)
(* server optimizer also runs on a round without examples; FALSE for one   *)
(* HypCluster cluster: such a round is skipped).                           *)
(***************************************************************************)
EXTENDS Rationals, FiniteSets, TLC

CONSTANTS Instances,   \* the set of instances the model checker starts from (records, see below)
          WeightByExamples, FreshClientOpt, RoundParams, ZeroGuard, CarryServerOpt, ProxOnRound, AdvanceKey, ApplyOnEmpty

VARIABLES inst,                           \* the instance (never changes)
          round, params, sstate,          \* server: round number, params, optimizer state (momentum trace)
          pending,                        \* POSITIONS of this round's cohort not yet trained (a client may be listed twice)
          cur, cparams, cstate, pos,      \* the client being trained: params, optimizer state, next batch
          acc, nsum, diag,                \* running weighted sum of deltas, example count, diagnostics entries
          lastc,                          \* client optimizer state left over by the previous client (deviation only)
          prevparams,                     \* params of the previous round (deviation only)
          hist                            \* params after each round
vars == <<inst, round, params, sstate, pending, cur, cparams, cstate, pos, acc, nsum, diag, lastc, prevparams, hist>>

(* inst == [ data    : client -> sequence of examples, each a sequence (one integer per leaf)
             stream  : client -> sequence of batches, each a sequence of example indices (1-based)
             init    : sequence of rationals (one per leaf)
             copt    : [kind |-> "sgd" | "mom" | "nes", lr |-> rational, beta |-> rational]
             sopt    : same
             mu      : rational (FedProx weight, <<0,1>> for FedAvg)
             reg     : rational lambda: an L2 regulariser lambda/2 |w|^2 added to the loss (gradient lambda w); zero if none
             noise   : round -> client -> sequence of integers, one per local step: the loss may use its random
                       key; the per-example loss is then 1/2 (w_l - x_l)^2 + w_l * eta(key) with an integer eta,
                       and noise[r][c][i] is eta of the key client c uses at its i-th step of round r (the
                       client's own key of that round is split once per step; every step draws with a fresh
                       descendant).  All zeros when the loss ignores its key.
             rounds  : number of rounds
             cohorts : sequence (per round) of sequences of client indices; the same client may occur more
                       than once in a cohort (sampling with replacement): it then counts once per occurrence ]  *)
Leaves == 1..Len(inst.init)
NClients == Len(inst.data)
VZero == [l \in Leaves |-> RZero]
VAdd(a, b) == [l \in Leaves |-> RAdd(a[l], b[l])]
VSub(a, b) == [l \in Leaves |-> RSub(a[l], b[l])]
VScale(a, s) == [l \in Leaves |-> RMul(a[l], s)]


Cohort(r) == {inst.cohorts[r][i] : i \in 1..Len(inst.cohorts[r])}
CohortPos(r) == 1..Len(inst.cohorts[r])
Start == /\ round = 1 /\ params = inst.init /\ sstate = VZero
        /\ pending = CohortPos(1) /\ cur = 0 /\ cparams = VZero /\ cstate = VZero /\ pos = 0
        /\ acc = VZero /\ nsum = 0 /\ diag = {} /\ lastc = VZero /\ prevparams = inst.init /\ hist = <<>>

Init == inst \in Instances /\ Start

\* an optimizer step: returns [p |-> new params, s |-> new state]
\* kinds: "sgd"; "mom" (heavy ball: t = g + beta s, step along t); "nes" (Nesterov: same trace, step along g + beta t)
OptApply(opt, g, s, p) ==
  IF opt.kind = "sgd" THEN [p |-> VSub(p, VScale(g, opt.lr)), s |-> s]
  ELSE LET t == VAdd(g, VScale(s, opt.beta))
           dir == IF opt.kind = "nes" THEN VAdd(g, VScale(t, opt.beta)) ELSE t
       IN [p |-> VSub(p, VScale(dir, opt.lr)), s |-> t]

\* mean over the batch of (w - x), leaf by leaf, plus the key-dependent term of step i, plus the proximal term
\* mu (w - w_round).  Deviation ~AdvanceKey: the client's key is not advanced, every step draws with the first key.
RECURSIVE SumX(_, _, _)
SumX(c, batch, l) == IF batch = <<>> THEN 0 ELSE inst.data[c][Head(batch)][l] + SumX(c, Tail(batch), l)
NoiseAt(c, i) == R(inst.noise[round][c][IF AdvanceKey THEN i ELSE 1])
Grad(c, i, w, anchor) ==
  LET batch == inst.stream[c][i]
  IN [l \in Leaves |-> RAdd(RAdd(RAdd(RSub(w[l], Norm(SumX(c, batch, l), Len(batch))), NoiseAt(c, i)),
                                 RMul(inst.mu, RSub(w[l], anchor[l]))),
                            RMul(inst.reg, w[l]))]

\* client_init: the round's server params, a fresh client optimizer state
StartClient(i) == /\ cur = 0 /\ i \in pending
                  /\ cur' = inst.cohorts[round][i] /\ pos' = 1 /\ pending' = pending \ {i}
                  /\ cparams' = (IF RoundParams THEN params ELSE prevparams)
                  /\ cstate' = (IF FreshClientOpt THEN VZero ELSE lastc)
                  /\ UNCHANGED <<inst, round, params, sstate, acc, nsum, diag, lastc, prevparams, hist>>
\* client_step: one optimizer step on the next batch of the client's stream
ClientStep == /\ cur # 0 /\ pos <= Len(inst.stream[cur])
              /\ LET g == Grad(cur, pos, cparams, IF ProxOnRound THEN params ELSE inst.init)
                     o == OptApply(inst.copt, g, cstate, cparams)
                 IN cparams' = o.p /\ cstate' = o.s
              /\ pos' = pos + 1
              /\ UNCHANGED <<inst, round, params, sstate, pending, cur, acc, nsum, diag, lastc, prevparams, hist>>
\* client_final and the running weighted sum
FinishClient == /\ cur # 0 /\ pos > Len(inst.stream[cur])
                /\ LET n == IF WeightByExamples THEN Len(inst.data[cur]) ELSE 1
                       delta == VSub(params, cparams)
                   IN acc' = VAdd(acc, VScale(delta, R(n))) /\ nsum' = nsum + n
                /\ diag' = diag \cup {cur} /\ lastc' = cstate /\ cur' = 0
                /\ UNCHANGED <<inst, round, params, sstate, pending, cparams, cstate, pos, prevparams, hist>>
\* server_update: the server optimizer applied to the mean delta (zero when no example was seen)
NaNVec == [l \in Leaves |-> <<0, 0>>]       \* 0/0
ServerUpdate == /\ cur = 0 /\ pending = {} /\ round <= inst.rounds
                /\ IF nsum = 0 /\ ~ZeroGuard
                   THEN \* deviation: dividing by a zero example count poisons the parameters; nothing meaningful follows
                        /\ params' = NaNVec /\ hist' = Append(hist, [p |-> NaNVec, diag |-> diag])
                        /\ round' = inst.rounds + 1 /\ pending' = {} /\ UNCHANGED sstate
                   ELSE /\ LET mean == IF nsum > 0 THEN VScale(acc, <<1, nsum>>) ELSE VZero
                               \* FedAvg applies the server optimizer also to the zero mean of a round without examples
                               \* (a momentum trace keeps moving the parameters); ~ApplyOnEmpty: such a round is skipped
                               \* altogether (what HypCluster does for a cluster that saw no example)
                               o == IF nsum = 0 /\ ~ApplyOnEmpty THEN [p |-> params, s |-> sstate]
                                    ELSE OptApply(inst.sopt, mean, IF CarryServerOpt THEN sstate ELSE VZero, params)
                           IN /\ params' = o.p /\ sstate' = o.s /\ hist' = Append(hist, [p |-> o.p, diag |-> diag])
                        /\ round' = round + 1
                        /\ pending' = (IF round + 1 <= inst.rounds THEN CohortPos(round + 1) ELSE {})
                /\ prevparams' = params
                /\ acc' = VZero /\ nsum' = 0 /\ diag' = {}
                /\ UNCHANGED <<inst, cur, cparams, cstate, pos, lastc>>

Next == (\E i \in pending : StartClient(i)) \/ ClientStep \/ FinishClient \/ ServerUpdate
Spec == Init /\ [][Next]_vars

(* ---- the mathematical definition of a round, stated without accumulators or order ---- *)
RECURSIVE TrainFrom(_, _, _, _, _, _)
TrainFrom(r, c, i, w, s, anchor) ==
  IF i > Len(inst.stream[c]) THEN w
  ELSE LET batch == inst.stream[c][i]
           g == [l \in Leaves |-> RAdd(RAdd(RAdd(RSub(w[l], Norm(SumX(c, batch, l), Len(batch))), R(inst.noise[r][c][i])),
                                            RMul(inst.mu, RSub(w[l], anchor[l]))),
                                       RMul(inst.reg, w[l]))]
           o == OptApply(inst.copt, g, s, w)
       IN TrainFrom(r, c, i + 1, o.p, o.s, anchor)
Delta(r, c, w) == VSub(w, TrainFrom(r, c, 1, w, VZero, w))
\* sums run over the POSITIONS of the cohort (a client listed twice counts twice)
RECURSIVE WeightedSum(_, _, _)
WeightedSum(P, r, w) == IF P = {} THEN VZero
                        ELSE LET i == CHOOSE x \in P : TRUE
                                 c == inst.cohorts[r][i]
                             IN VAdd(VScale(Delta(r, c, w), R(Len(inst.data[c]))), WeightedSum(P \ {i}, r, w))
RECURSIVE ExamplesAt(_, _)
ExamplesAt(P, r) == IF P = {} THEN 0 ELSE LET i == CHOOSE x \in P : TRUE IN Len(inst.data[inst.cohorts[r][i]]) + ExamplesAt(P \ {i}, r)
Examples(r) == ExamplesAt(CohortPos(r), r)
DefRound(r, w, s) == LET n == Examples(r)
                         mean == IF n > 0 THEN VScale(WeightedSum(CohortPos(r), r, w), <<1, n>>) ELSE VZero
                     IN IF n = 0 /\ ~ApplyOnEmpty THEN [p |-> w, s |-> s] ELSE OptApply(inst.sopt, mean, s, w)
RECURSIVE DefAfter(_)
DefAfter(r) == IF r = 0 THEN [p |-> inst.init, s |-> VZero] ELSE LET b == DefAfter(r - 1) IN DefRound(r, b.p, b.s)

\* whatever the client order, after round r the server holds the definition's value
EqualsDefinition == \A r \in 1..Len(hist) : (hist[r].p # NaNVec) => hist[r].p = DefAfter(r).p
OneDiagPerClient == \A r \in 1..Len(hist) : hist[r].diag = Cohort(r)
\* a round that saw no example leaves the parameters unchanged under plain SGD
EmptyRoundFixpoint == \A r \in 1..Len(hist) :
                         (Examples(r) = 0 /\ inst.sopt.kind = "sgd") =>
                            hist[r].p = (IF r = 1 THEN inst.init ELSE hist[r - 1].p)
NoNaN == \A r \in 1..Len(hist) : \A l \in Leaves : hist[r].p[l][2] # 0
Finished == round > inst.rounds
=============================================================================
