------------------------------ MODULE FedRound ------------------------------
(***************************************************************************)
(* One or more rounds of federated averaging (fedjax.algorithms.fed_avg)   *)
(* and its FedProx variant on the EXACT ISLAND: parameters are vectors of  *)
(* rationals, the per-example loss of leaf l is 1/2 (w_l - x_l)^2 (so the  *)
(* batch gradient is w_l - mean(x_l over the batch), which depends on the  *)
(* current parameters), optimizers are SGD(lr) and SGD-with-momentum       *)
(* (lr, beta) for clients and server.  The batch stream of every client is *)
(* an INPUT (sequence of batches, each a sequence of example indices): it  *)
(* is what the real shuffle_repeat_batch produced.                         *)
(*                                                                         *)
(* Structure follows the code: per client client_init (fresh optimizer     *)
(* state, the ROUND's server params), one client_step per batch,           *)
(* client_final (delta = server params - trained params), then the running *)
(* example-count-weighted sum; server_update applies the server optimizer  *)
(* to the mean delta (zero when no example was seen).  Clients are taken   *)
(* in an arbitrary order.  Serves C01, C12 (FedProx), C10.                 *)
(* Toggles: WeightByExamples, FreshClientOpt, RoundParams (clients start   *)
(* from the round's params), ZeroGuard, CarryServerOpt, ProxOnRound.       *)
(***************************************************************************)
EXTENDS Rationals, FiniteSets, TLC

CONSTANTS Instances,   \* the set of instances the model checker starts from (records, see below)
          WeightByExamples, FreshClientOpt, RoundParams, ZeroGuard, CarryServerOpt, ProxOnRound

VARIABLES inst,                           \* the instance (never changes)
          round, params, sstate,          \* server: round number, params, optimizer state (momentum trace)
          pending,                        \* clients of this round's cohort not yet trained
          cur, cparams, cstate, pos,      \* the client being trained: params, optimizer state, next batch
          acc, nsum, diag,                \* running weighted sum of deltas, example count, diagnostics entries
          lastc,                          \* client optimizer state left over by the previous client (deviation only)
          prevparams,                     \* params of the previous round (deviation only)
          hist                            \* params after each round
vars == <<inst, round, params, sstate, pending, cur, cparams, cstate, pos, acc, nsum, diag, lastc, prevparams, hist>>

(* inst == [ data    : client -> sequence of examples, each a sequence (one integer per leaf)
             stream  : client -> sequence of batches, each a sequence of example indices (1-based)
             init    : sequence of rationals (one per leaf)
             copt    : [kind |-> "sgd" | "mom", lr |-> rational, beta |-> rational]
             sopt    : same
             mu      : rational (FedProx weight, <<0,1>> for FedAvg)
             rounds  : number of rounds
             cohorts : sequence (per round) of sequences of client indices ]                                  *)
Leaves == 1..Len(inst.init)
NClients == Len(inst.data)
VZero == [l \in Leaves |-> RZero]
VAdd(a, b) == [l \in Leaves |-> RAdd(a[l], b[l])]
VSub(a, b) == [l \in Leaves |-> RSub(a[l], b[l])]
VScale(a, s) == [l \in Leaves |-> RMul(a[l], s)]


Cohort(r) == {inst.cohorts[r][i] : i \in 1..Len(inst.cohorts[r])}
Start == /\ round = 1 /\ params = inst.init /\ sstate = VZero
        /\ pending = Cohort(1) /\ cur = 0 /\ cparams = VZero /\ cstate = VZero /\ pos = 0
        /\ acc = VZero /\ nsum = 0 /\ diag = {} /\ lastc = VZero /\ prevparams = inst.init /\ hist = <<>>

Init == inst \in Instances /\ Start

\* an optimizer step: returns [p |-> new params, s |-> new state]
OptApply(opt, g, s, p) ==
  IF opt.kind = "sgd" THEN [p |-> VSub(p, VScale(g, opt.lr)), s |-> s]
  ELSE LET t == VAdd(g, VScale(s, opt.beta)) IN [p |-> VSub(p, VScale(t, opt.lr)), s |-> t]

\* mean over the batch of (w - x), leaf by leaf, plus the proximal term mu (w - w_round)
RECURSIVE SumX(_, _, _)
SumX(c, batch, l) == IF batch = <<>> THEN 0 ELSE inst.data[c][Head(batch)][l] + SumX(c, Tail(batch), l)
Grad(c, batch, w, anchor) ==
  [l \in Leaves |-> RAdd(RSub(w[l], Norm(SumX(c, batch, l), Len(batch))),
                         RMul(inst.mu, RSub(w[l], anchor[l])))]

\* client_init: the round's server params, a fresh client optimizer state
StartClient(c) == /\ cur = 0 /\ c \in pending
                  /\ cur' = c /\ pos' = 1
                  /\ cparams' = (IF RoundParams THEN params ELSE prevparams)
                  /\ cstate' = (IF FreshClientOpt THEN VZero ELSE lastc)
                  /\ UNCHANGED <<inst, round, params, sstate, pending, acc, nsum, diag, lastc, prevparams, hist>>
\* client_step: one optimizer step on the next batch of the client's stream
ClientStep == /\ cur # 0 /\ pos <= Len(inst.stream[cur])
              /\ LET g == Grad(cur, inst.stream[cur][pos], cparams, IF ProxOnRound THEN params ELSE inst.init)
                     o == OptApply(inst.copt, g, cstate, cparams)
                 IN cparams' = o.p /\ cstate' = o.s
              /\ pos' = pos + 1
              /\ UNCHANGED <<inst, round, params, sstate, pending, cur, acc, nsum, diag, lastc, prevparams, hist>>
\* client_final and the running weighted sum
FinishClient == /\ cur # 0 /\ pos > Len(inst.stream[cur])
                /\ LET n == IF WeightByExamples THEN Len(inst.data[cur]) ELSE 1
                       delta == VSub(params, cparams)
                   IN acc' = VAdd(acc, VScale(delta, R(n))) /\ nsum' = nsum + n
                /\ diag' = diag \cup {cur} /\ pending' = pending \ {cur} /\ lastc' = cstate /\ cur' = 0
                /\ UNCHANGED <<inst, round, params, sstate, cparams, cstate, pos, prevparams, hist>>
\* server_update: the server optimizer applied to the mean delta (zero when no example was seen)
NaNVec == [l \in Leaves |-> <<0, 0>>]       \* 0/0
ServerUpdate == /\ cur = 0 /\ pending = {} /\ round <= inst.rounds
                /\ IF nsum = 0 /\ ~ZeroGuard
                   THEN \* deviation: dividing by a zero example count poisons the parameters; nothing meaningful follows
                        /\ params' = NaNVec /\ hist' = Append(hist, [p |-> NaNVec, diag |-> diag])
                        /\ round' = inst.rounds + 1 /\ pending' = {} /\ UNCHANGED sstate
                   ELSE /\ LET mean == IF nsum > 0 THEN VScale(acc, <<1, nsum>>) ELSE VZero
                               o == OptApply(inst.sopt, mean, IF CarryServerOpt THEN sstate ELSE VZero, params)
                           IN /\ params' = o.p /\ sstate' = o.s /\ hist' = Append(hist, [p |-> o.p, diag |-> diag])
                        /\ round' = round + 1
                        /\ pending' = (IF round + 1 <= inst.rounds THEN Cohort(round + 1) ELSE {})
                /\ prevparams' = params
                /\ acc' = VZero /\ nsum' = 0 /\ diag' = {}
                /\ UNCHANGED <<inst, cur, cparams, cstate, pos, lastc>>

Next == (\E c \in 1..NClients : StartClient(c)) \/ ClientStep \/ FinishClient \/ ServerUpdate
Spec == Init /\ [][Next]_vars

(* ---- the mathematical definition of a round, stated without accumulators or order ---- *)
RECURSIVE TrainFrom(_, _, _, _, _)
TrainFrom(c, i, w, s, anchor) ==
  IF i > Len(inst.stream[c]) THEN w
  ELSE LET o == OptApply(inst.copt, Grad(c, inst.stream[c][i], w, anchor), s, w) IN TrainFrom(c, i + 1, o.p, o.s, anchor)
Delta(c, w) == VSub(w, TrainFrom(c, 1, w, VZero, w))
RECURSIVE WeightedSum(_, _)
WeightedSum(S, w) == IF S = {} THEN VZero
                     ELSE LET c == CHOOSE x \in S : TRUE IN VAdd(VScale(Delta(c, w), R(Len(inst.data[c]))), WeightedSum(S \ {c}, w))
RECURSIVE Examples(_)
Examples(S) == IF S = {} THEN 0 ELSE LET c == CHOOSE x \in S : TRUE IN Len(inst.data[c]) + Examples(S \ {c})
DefRound(r, w, s) == LET S == Cohort(r)
                         n == Examples(S)
                         mean == IF n > 0 THEN VScale(WeightedSum(S, w), <<1, n>>) ELSE VZero
                     IN OptApply(inst.sopt, mean, s, w)
RECURSIVE DefAfter(_)
DefAfter(r) == IF r = 0 THEN [p |-> inst.init, s |-> VZero] ELSE LET b == DefAfter(r - 1) IN DefRound(r, b.p, b.s)

\* whatever the client order, after round r the server holds the definition's value
EqualsDefinition == \A r \in 1..Len(hist) : (hist[r].p # NaNVec) => hist[r].p = DefAfter(r).p
OneDiagPerClient == \A r \in 1..Len(hist) : hist[r].diag = Cohort(r)
\* a round that saw no example leaves the parameters unchanged under plain SGD
EmptyRoundFixpoint == \A r \in 1..Len(hist) :
                         (Examples(Cohort(r)) = 0 /\ inst.sopt.kind = "sgd") =>
                            hist[r].p = (IF r = 1 THEN inst.init ELSE hist[r - 1].p)
NoNaN == \A r \in 1..Len(hist) : \A l \in Leaves : hist[r].p[l][2] # 0
Finished == round > inst.rounds
=============================================================================
