------------------------------- MODULE Sampler -------------------------------
(***************************************************************************)
(* fedjax.core.client_samplers: the round-indexed UniformGetClientSampler  *)
(* (sample / set_round_num) and the streaming UniformShuffledClientSampler *)
(* (constructed at start_round_num over a seeded client stream).           *)
(* What a sample returns is abstracted to a value: for the round-indexed   *)
(* sampler a pure function of the round number (deviation: also of the     *)
(* number of calls made so far - a hidden generator advanced across        *)
(* calls); for the streaming sampler the stream positions it consumed.     *)
(* `memo` remembers what each round returned the first time.  Serves C13.  *)
(***************************************************************************)
EXTENDS Integers, Sequences, FiniteSets, TLC, Json

CONSTANTS MaxRound, MaxOps, Cohort,
          Stateless,   \* FALSE: the output also depends on how many samples were drawn before
          SkipExact    \* FALSE: a streaming sampler started at round r skips r*Cohort - 1 items

VARIABLES kind, round, calls, pos, memo, bad, hist
vars == <<kind, round, calls, pos, memo, bad, hist>>

Init == /\ kind \in {"get", "stream"} /\ round = 0 /\ calls = 0 /\ pos = 0
        /\ memo = <<>> /\ bad = {} /\ hist = <<>>

Has(f, x) == x \in DOMAIN f
Put(f, x, v) == IF Has(f, x) THEN f ELSE [y \in DOMAIN f \cup {x} |-> IF y = x THEN v ELSE f[y]]
Remember(r, o) == /\ memo' = Put(memo, r, o)
                  /\ bad' = IF Has(memo, r) /\ memo[r] # o THEN bad \cup {r} ELSE bad

GetOut == IF Stateless THEN <<"round", round>> ELSE <<"round", round, "call", calls>>
Sample == /\ kind = "get" /\ Len(hist) < MaxOps /\ round <= MaxRound
          /\ Remember(round, GetOut)
          /\ round' = round + 1 /\ calls' = calls + 1
          /\ hist' = Append(hist, [op |-> "sample", round |-> round])
          /\ UNCHANGED <<kind, pos>>
SetRound(r) == /\ kind = "get" /\ Len(hist) < MaxOps /\ r \in 0..MaxRound
               /\ round' = r
               /\ hist' = Append(hist, [op |-> "set_round", r |-> r])
               /\ UNCHANGED <<kind, calls, pos, memo, bad>>
\* a fresh sampler object (a restarted process) constructed at start_round_num = r
NewGet(r) == /\ kind = "get" /\ Len(hist) < MaxOps /\ r \in 0..MaxRound
             /\ round' = r /\ calls' = 0
             /\ hist' = Append(hist, [op |-> "new", r |-> r])
             /\ UNCHANGED <<kind, pos, memo, bad>>

StreamOut == [j \in 1..Cohort |-> pos + j]
StreamSample == /\ kind = "stream" /\ Len(hist) < MaxOps /\ round <= MaxRound
                /\ Remember(round, StreamOut)
                /\ pos' = pos + Cohort /\ round' = round + 1
                /\ hist' = Append(hist, [op |-> "sample", round |-> round])
                /\ UNCHANGED <<kind, calls>>
NewStream(r) == /\ kind = "stream" /\ Len(hist) < MaxOps /\ r \in 0..MaxRound
                /\ round' = r
                /\ pos' = IF SkipExact \/ r = 0 THEN r * Cohort ELSE r * Cohort - 1
                /\ hist' = Append(hist, [op |-> "new", r |-> r])
                /\ UNCHANGED <<kind, calls, memo, bad>>

SetRoundStep == \E r \in 0..MaxRound : SetRound(r)
NewGetStep == \E r \in 0..MaxRound : NewGet(r)
NewStreamStep == \E r \in 0..MaxRound : NewStream(r)
Next == Sample \/ SetRoundStep \/ NewGetStep \/ StreamSample \/ NewStreamStep
Spec == Init /\ [][Next]_vars

\* what round r returns does not depend on which rounds were sampled before, nor on restarts
PureInRound == bad = {}
Emit == (Len(hist) = MaxOps) => PrintT("JSON " \o ToJson([kind |-> kind, hist |-> hist]))
=============================================================================
