----------------------------- MODULE Experiment -----------------------------
(***************************************************************************)
(* fedjax.training.federated_experiment.run_federated_experiment together  *)
(* with fedjax.training.checkpoint, at the grain of the implementation:    *)
(* one action per file-system effect and per step of the round loop, with  *)
(* a Crash action enabled everywhere.  Serves property C09.                *)
(*                                                                         *)
(* The server state is the sequence of cohort numbers applied so far, so a *)
(* sampler that is not re-seated, a round applied twice or skipped all     *)
(* produce a state different from <<1, .., r>>.                            *)
(*                                                                         *)
(* Toggles re-create known deviations (used as sensitivity controls and    *)
(* to describe the pre-fix code):                                          *)
(*   AtomicSave     FALSE: checkpoint written in place under final name    *)
(*   FinalUsesLast  FALSE: final evaluation reads the loop variable        *)
(*   NewestFirst    FALSE: load picks any visible checkpoint               *)
(*   StrictFilter   FALSE: names merely sharing the prefix are checkpoints *)
(*   Reseat         FALSE: sampler not seated at the start round           *)
(***************************************************************************)
EXTENDS Integers, Sequences, FiniteSets, TLC

CONSTANTS NumRounds, CkptFreq, Keep, EvalFreq, MaxCrashes, HasFinalEval,
          AtomicSave, FinalUsesLast, NewestFirst, StrictFilter, Reseat,
          NumDecoys

Rounds == 1..NumRounds
Unbound == 0 - 1

VARIABLES pc,       \* control state of the current incarnation
          st,       \* in-memory server state (sequence of cohort numbers)
          start,    \* start_round_num
          rnd,      \* loop variable round_num (Unbound before the first iteration)
          samp,     \* the sampler's next round number
          cohort,   \* cohort handed to the algorithm in this round
          fs,       \* directory: name -> file
          wname,    \* name of the file currently open for writing
          delq,     \* checkpoints still to delete in this save
          crashes, result, loaded

vars == <<pc, st, start, rnd, samp, cohort, fs, wname, delq, crashes, result, loaded>>

(* ---- names and files ---- *)
CkptName(r) == [k |-> "ckpt", r |-> r, s |-> ""]
TmpName(r) == [k |-> "other", r |-> r, s |-> "tmp"]
DecoyName(i) == [k |-> "other", r |-> 0, s |-> "decoy"]   \* i ignored unless NumDecoys > 1
TsvName == [k |-> "tsv", r |-> 0, s |-> ""]
NoName == [k |-> "none", r |-> 0, s |-> ""]
Decoys == IF NumDecoys > 0 THEN {DecoyName(1)} ELSE {}
ModelNames == {CkptName(r) : r \in Rounds} \cup {TmpName(r) : r \in Rounds} \cup Decoys \cup {TsvName}

Absent == [status |-> "absent", content |-> <<>>, round |-> 0]
DecoyFile == [status |-> "complete", content |-> <<0>>, round |-> 0]
Correct(r) == [i \in 1..r |-> i]

IsCkpt(n) == n.k = "ckpt"
Present(n) == fs[n].status # "absent"
\* what the listing of checkpoints sees (decoy with a loose filter is seen as a checkpoint of a huge round)
VisibleNames == {n \in DOMAIN fs : Present(n) /\ (IsCkpt(n) \/ (~StrictFilter /\ n \in Decoys))}
VisibleRounds == {n.r : n \in {m \in DOMAIN fs : Present(m) /\ IsCkpt(m)}}
SortKey(n) == IF IsCkpt(n) THEN n.r ELSE NumRounds + 1
Max(S) == CHOOSE x \in S : \A y \in S : y <= x
Min(S) == CHOOSE x \in S : \A y \in S : x <= y
Newest(S) == CHOOSE n \in S : \A m \in S : SortKey(m) <= SortKey(n)
RECURSIVE SortedNames(_)
SortedNames(S) == IF S = {} THEN <<>>
                  ELSE LET m == CHOOSE n \in S : \A o \in S : SortKey(n) <= SortKey(o)
                       IN <<m>> \o SortedNames(S \ {m})
DelQueue(f) == LET vis == {n \in DOMAIN f : f[n].status # "absent" /\ (IsCkpt(n) \/ (~StrictFilter /\ n \in Decoys))}
                   s == SortedNames(vis)
               IN IF Len(s) > Keep THEN SubSeq(s, 1, Len(s) - Keep) ELSE <<>>

ShouldSave(r) == CkptFreq # 0 /\ (r = start \/ r % CkptFreq = 0)
ShouldEval(r) == EvalFreq # 0 /\ (r = start \/ r % EvalFreq = 0)

InitFs == [n \in ModelNames |-> IF n \in Decoys THEN DecoyFile ELSE Absent]

Init == /\ pc = "load" /\ st = <<>> /\ start = 0 /\ rnd = Unbound /\ samp = 0 /\ cohort = 0
        /\ fs = InitFs /\ wname = NoName /\ delq = <<>> /\ crashes = 0 /\ result = <<>> /\ loaded = 0

(* ---- load_latest_checkpoint ---- *)
LoadFresh == /\ pc = "load" /\ VisibleNames = {}
             /\ st' = <<>> /\ start' = 1 /\ loaded' = 0 /\ pc' = "seat"
             /\ UNCHANGED <<rnd, samp, cohort, fs, wname, delq, crashes, result>>

LoadRead(n) == /\ pc = "load" /\ n \in VisibleNames
               /\ loaded' = SortKey(n)
               /\ IF fs[n].status = "complete" /\ IsCkpt(n)
                  THEN /\ st' = fs[n].content /\ start' = n.r + 1 /\ pc' = "seat"
                  ELSE /\ pc' = "failed" /\ UNCHANGED <<st, start>>      \* unpickling a truncated / foreign file raises
               /\ UNCHANGED <<rnd, samp, cohort, fs, wname, delq, crashes, result>>

\* client_sampler.set_round_num(start_round_num), then the first evaluation of the loop condition
AfterRound(r) == IF r + 1 <= NumRounds THEN "sample" ELSE "final"
Seat(r) == /\ pc = "seat"
           /\ samp' = r
           /\ IF start <= NumRounds THEN /\ rnd' = start /\ pc' = "sample"
              ELSE /\ rnd' = Unbound /\ pc' = "final"
           /\ UNCHANGED <<st, start, cohort, fs, wname, delq, crashes, result, loaded>>

(* ---- one round ---- *)
Sample == /\ pc = "sample" /\ cohort' = samp /\ samp' = samp + 1 /\ pc' = "apply"
          /\ UNCHANGED <<st, start, rnd, fs, wname, delq, crashes, result, loaded>>

AfterApplyPc == IF ShouldSave(rnd) THEN "save_open"
                ELSE IF ShouldEval(rnd) THEN "eval" ELSE "endround"
Apply == /\ pc = "apply" /\ st' = Append(st, cohort)
         /\ pc' = AfterApplyPc
         /\ UNCHANGED <<start, rnd, samp, cohort, fs, wname, delq, crashes, result, loaded>>

\* save_state: open (creates / truncates), write(s), close, [rename]
SaveOpen(n) == /\ pc = "save_open"
               /\ fs' = [fs EXCEPT ![n] = [status |-> "empty", content |-> st, round |-> 0]]
               /\ wname' = n /\ pc' = "save_write"
               /\ UNCHANGED <<st, start, rnd, samp, cohort, delq, crashes, result, loaded>>

SaveWrite(cls) == /\ pc = "save_write" /\ cls \in {"prefix", "complete"}
                  /\ fs[wname].status # "complete"
                  /\ fs' = [fs EXCEPT ![wname].status = cls]
                  /\ pc' = IF cls = "complete" THEN "save_close" ELSE "save_write"
                  /\ UNCHANGED <<st, start, rnd, samp, cohort, wname, delq, crashes, result, loaded>>

SaveClose == /\ pc = "save_close"
             /\ IF IsCkpt(wname)
                THEN /\ pc' = "del" /\ delq' = DelQueue(fs)
                ELSE /\ pc' = "save_rename" /\ UNCHANGED delq
             /\ UNCHANGED <<st, start, rnd, samp, cohort, fs, wname, crashes, result, loaded>>

SaveRename(src, dst) == /\ pc = "save_rename" /\ src = wname /\ IsCkpt(dst) /\ dst.r = rnd
                        /\ fs' = [fs EXCEPT ![dst] = fs[src], ![src] = Absent]
                        /\ pc' = "del"
                        /\ delq' = DelQueue(fs')
                        /\ wname' = NoName
                        /\ UNCHANGED <<st, start, rnd, samp, cohort, crashes, result, loaded>>

Del(n) == /\ pc = "del" /\ delq # <<>> /\ n = Head(delq)
          /\ fs' = [fs EXCEPT ![n] = Absent] /\ delq' = Tail(delq)
          /\ UNCHANGED <<pc, st, start, rnd, samp, cohort, wname, crashes, result, loaded>>

DelDone == /\ pc = "del" /\ delq = <<>>
           /\ pc' = "saved"
           /\ UNCHANGED <<st, start, rnd, samp, cohort, fs, wname, delq, crashes, result, loaded>>

Saved == /\ pc = "saved" /\ pc' = IF ShouldEval(rnd) THEN "eval" ELSE "endround"
         /\ UNCHANGED <<st, start, rnd, samp, cohort, fs, wname, delq, crashes, result, loaded>>

PeriodicEval == /\ pc = "eval" /\ pc' = "endround"
                /\ UNCHANGED <<st, start, rnd, samp, cohort, fs, wname, delq, crashes, result, loaded>>

EndRound == /\ pc = "endround"
            /\ pc' = AfterRound(rnd)
            /\ rnd' = IF rnd + 1 <= NumRounds THEN rnd + 1 ELSE rnd
            /\ UNCHANGED <<st, start, samp, cohort, fs, wname, delq, crashes, result, loaded>>

(* ---- final evaluation: metrics = (state, round) written to a .tsv in place ---- *)
FinalRound == IF rnd = Unbound THEN start - 1 ELSE rnd
FinalEval == /\ pc = "final"
             /\ IF ~HasFinalEval THEN pc' = "return"
                ELSE IF rnd = Unbound /\ ~FinalUsesLast THEN pc' = "failed"    \* UnboundLocalError
                ELSE pc' = "final_open"
             /\ UNCHANGED <<st, start, rnd, samp, cohort, fs, wname, delq, crashes, result, loaded>>

FinalOpen == /\ pc = "final_open"
             /\ fs' = [fs EXCEPT ![TsvName] = [status |-> "empty", content |-> st, round |-> FinalRound]]
             /\ pc' = "final_write"
             /\ UNCHANGED <<st, start, rnd, samp, cohort, wname, delq, crashes, result, loaded>>

FinalWrite(cls) == /\ pc = "final_write" /\ cls \in {"prefix", "complete"}
                   /\ fs[TsvName].status # "complete"
                   /\ fs' = [fs EXCEPT ![TsvName].status = cls]
                   /\ pc' = IF cls = "complete" THEN "return" ELSE "final_write"
                   /\ UNCHANGED <<st, start, rnd, samp, cohort, wname, delq, crashes, result, loaded>>

Return == /\ pc = "return" /\ result' = st /\ pc' = "done"
          /\ UNCHANGED <<st, start, rnd, samp, cohort, fs, wname, delq, crashes, loaded>>

(* ---- the environment: kill the process anywhere; the user re-runs the same call ---- *)
Volatile == /\ st' = <<>> /\ start' = 0 /\ rnd' = Unbound /\ samp' = 0 /\ cohort' = 0
            /\ wname' = NoName /\ delq' = <<>> /\ loaded' = 0
Crash == /\ pc \notin {"done", "failed"} /\ crashes < MaxCrashes
         /\ crashes' = crashes + 1 /\ pc' = "load" /\ Volatile
         /\ UNCHANGED <<fs, result>>
Rerun == /\ pc = "done" /\ crashes < MaxCrashes
         /\ crashes' = crashes + 1 /\ pc' = "load" /\ Volatile /\ result' = <<>>
         /\ UNCHANGED fs

(* ---- the program as designed (toggles select deviations) ---- *)
Load == \/ LoadFresh
        \/ \E n \in VisibleNames : (NewestFirst => n = Newest(VisibleNames)) /\ LoadRead(n)
SeatStep == Seat(IF Reseat THEN start ELSE 0)
SaveOpenStep == SaveOpen(IF AtomicSave THEN TmpName(rnd) ELSE CkptName(rnd))
SaveWriteStep == \E cls \in {"prefix", "complete"} : SaveWrite(cls)
SaveRenameStep == SaveRename(wname, CkptName(rnd))
DelStep == \E n \in DOMAIN fs : Del(n)
FinalWriteStep == \E cls \in {"prefix", "complete"} : FinalWrite(cls)

Program == \/ Load \/ SeatStep \/ Sample \/ Apply \/ SaveOpenStep \/ SaveWriteStep \/ SaveClose
           \/ SaveRenameStep \/ DelStep \/ DelDone \/ Saved \/ PeriodicEval \/ EndRound
           \/ FinalEval \/ FinalOpen \/ FinalWriteStep \/ Return
Next == Program \/ Crash \/ Rerun
Spec == Init /\ [][Next]_vars /\ WF_vars(Program)

(* ---- properties (C09) ---- *)
\* a checkpoint visible under its final name is complete, loadable and holds the right state
VisibleComplete == \A n \in DOMAIN fs : (IsCkpt(n) /\ Present(n)) =>
                      /\ fs[n].status = "complete"
                      /\ fs[n].content = Correct(n.r)
\* the newest checkpoint wins
NewestWins == (pc = "seat" /\ loaded # 0) => loaded = Max({SortKey(n) : n \in VisibleNames})
\* resumption starts right after the loaded round with the sampler seated there
ResumePoint == (pc \in {"sample", "final"} /\ loaded # 0 /\ rnd = Unbound) => start = loaded + 1
SamplerSeated == pc = "sample" => samp = rnd
\* the in-memory state is always the uninterrupted run's state
StateCorrect == pc \notin {"load", "failed"} => st = Correct(Len(st))
RoundMatchesState == pc \in {"save_open", "save_write", "save_close", "save_rename", "del", "saved", "eval", "endround"}
                        => Len(st) = rnd
AtMostKeep == pc = "saved" => Cardinality(VisibleRounds) <= Keep
NoFailure == pc # "failed"
DecoysUntouched == \A d \in Decoys : fs[d] = DecoyFile
TsvGood == /\ fs[TsvName].status = "complete"
           /\ fs[TsvName].content = Correct(NumRounds)
           /\ fs[TsvName].round = NumRounds
ResultCorrect == pc = "done" => /\ result = Correct(NumRounds)
                                /\ HasFinalEval => TsvGood
Completes == <>(pc = "done")
\* a visible checkpoint is never lost except to the retention rule (action property)
OnlyRetentionDeletes ==
  [][\A n \in DOMAIN fs : (IsCkpt(n) /\ Present(n) /\ fs'[n].status = "absent") => pc = "del"]_vars
=============================================================================
