----------------------------- MODULE RepIterTrace -----------------------------
(* Trace validation for RepIter: one event per item handed out by a real      *)
(* RepeatableIterator ("Item"), "Stop" at each StopIteration, then End.       *)
EXTENDS RepIter, TraceBatch

tvars == <<vars, tid, l>>
TraceInit == /\ BatchInit
             /\ len = Traces[tid].len /\ container = Traces[tid].container
             /\ firstPass = ~container /\ store = (IF container THEN Base ELSE <<>>)
             /\ cursor = 1 /\ live = "base" /\ passes = <<>> /\ cur = <<>>
TItem == IsEvent("Item") /\ NextItem /\ cur'[Len(cur')] = Ev.v
TStop == IsEvent("Stop") /\ StopPass
TEnd == IsEvent("End") /\ cur = <<>> /\ UNCHANGED vars
TraceNext == TItem \/ TStop \/ TEnd
Verdicts == /\ Progress(<<cursor, live, Len(passes)>>)
            /\ Check("LaterPassesEqualFirst", LaterPassesEqualFirst, TRUE)
            /\ Check("FirstPassIsBase", FirstPassIsBase, TRUE)
            /\ OkSoFar
=============================================================================
