---------------------------- MODULE WalshHadamard ----------------------------
(***************************************************************************)
(* fedjax.aggregators.walsh_hadamard.walsh_hadamard_transform as the code  *)
(* computes it - the shape loop (while n > 1: append(min(n, small_n));     *)
(* n //= small_n; reverse) followed by one einsum with a small Hadamard    *)
(* matrix per axis of the reshaped input - against the closed form of the  *)
(* Sylvester matrix  H[i][j] = (-1)^popcount(i & j).  By linearity it is   *)
(* enough to transform every basis vector.  Also the structured rotation   *)
(* x -> H D pad(x) / sqrt(d) in integers (without the 1/sqrt(d)).          *)
(* Serves C18.  Deviation PerAxis (FALSE: every einsum contracts the first *)
(* axis instead of its own).                                               *)
(***************************************************************************)
EXTENDS Integers, Sequences, FiniteSets, TLC, Json, Bitwise

CONSTANTS MaxLogN, MaxLogB, PerAxis, Mode      \* Mode = "transform" or "rotation"

RECURSIVE Pow2(_)
Pow2(k) == IF k = 0 THEN 1 ELSE 2 * Pow2(k - 1)
RECURSIVE PopParity(_)
PopParity(x) == IF x = 0 THEN 0 ELSE ((x % 2) + PopParity(x \div 2)) % 2
\* Sylvester Hadamard entry, 0-based indices
Had(i, j) == IF PopParity(i & j) = 0 THEN 1 ELSE 0 - 1

VARIABLES n, b, jcol, shape, axis, y, phase, rem,
          x, signs, out     \* rotation mode
vars == <<n, b, jcol, shape, axis, y, phase, rem, x, signs, out>>

Vectors == {<<1>>, <<3, 0 - 4>>, <<1, 2, 2>>, <<2, 0 - 1, 0, 5>>, <<1, 1, 1, 1, 1>>, <<0, 0, 0, 0, 0, 7>>, <<1, 0 - 2, 3, 0 - 4, 5, 0 - 6, 7>>,
            <<2, 2, 2, 2, 2, 2, 2, 2, 2>>}
RECURSIVE CeilLog2(_)
CeilLog2(m) == IF m <= 1 THEN 0 ELSE 1 + CeilLog2((m + 1) \div 2)

Init == /\ b \in {Pow2(k) : k \in 1..MaxLogB}
        /\ IF Mode = "transform"
           THEN /\ n \in {Pow2(k) : k \in 0..MaxLogN} /\ jcol \in 0..(n - 1)
                /\ y = [i \in 1..n |-> IF i - 1 = jcol THEN 1 ELSE 0]
                /\ x = <<>> /\ signs = <<>>
           ELSE /\ x \in Vectors /\ n = Pow2(CeilLog2(Len(x))) /\ n <= Pow2(MaxLogN) /\ jcol = 0
                /\ signs \in [1..n -> {0 - 1, 1}]
                /\ y = [i \in 1..n |-> IF i <= Len(x) THEN x[i] * signs[i] ELSE 0]
        /\ shape = <<>> /\ axis = 0 /\ phase = "shape" /\ rem = n /\ out = <<>>

Min(a, c) == IF a < c THEN a ELSE c
\* while n > 1: shape.append(min(n, small_n)); n //= small_n
ShapeStep == /\ phase = "shape" /\ rem > 1
             /\ shape' = Append(shape, Min(rem, b)) /\ rem' = rem \div b
             /\ UNCHANGED <<n, b, jcol, axis, y, phase, x, signs, out>>
RECURSIVE Rev(_)
Rev(s) == IF s = <<>> THEN <<>> ELSE Append(Rev(Tail(s)), Head(s))
ShapeDone == /\ phase = "shape" /\ rem <= 1
             /\ shape' = Rev(shape)
             /\ axis' = 1 /\ phase' = "einsum"
             /\ UNCHANGED <<n, b, jcol, y, rem, x, signs, out>>
\* row-major stride of axis k
RECURSIVE Stride(_, _)
Stride(s, k) == IF k = Len(s) THEN 1 ELSE s[k + 1] * Stride(s, k + 1)
\* y'[a, nw, c] = sum over old of y[a, old, c] * H_d[old][nw] along axis `axis`
RECURSIVE AxisAcc(_, _, _, _, _)
AxisAcc(base, s, d, nw, old) == IF old = d THEN 0 ELSE y[base + old * s + 1] * Had(old, nw) + AxisAcc(base, s, d, nw, old + 1)
AxisVal(flat, s, d) == LET nw == (flat \div s) % d IN AxisAcc(flat - nw * s, s, d, nw, 0)
EinsumAxis == /\ phase = "einsum" /\ axis <= Len(shape)
              /\ LET ax == IF PerAxis THEN axis ELSE 1
                 IN y' = [i \in 1..n |-> AxisVal(i - 1, Stride(shape, ax), shape[ax])]
              /\ axis' = axis + 1
              /\ UNCHANGED <<n, b, jcol, shape, phase, rem, x, signs, out>>
Finish == /\ phase = "einsum" /\ axis > Len(shape) /\ phase' = "done" /\ out' = y
          /\ UNCHANGED <<n, b, jcol, shape, axis, y, rem, x, signs>>
Next == ShapeStep \/ ShapeDone \/ EinsumAxis \/ Finish
Spec == Init /\ [][Next]_vars

Done == phase = "done"
\* the fast transform of basis vector e_j is column j of the Sylvester matrix
EqualsSylvester == (Done /\ Mode = "transform") => \A i \in 1..n : out[i] = Had(i - 1, jcol)
RECURSIVE Prod(_)
Prod(s) == IF s = <<>> THEN 1 ELSE Head(s) * Prod(Tail(s))
ShapeIsFactorisation == (phase # "shape") => Prod(shape) = n
RECURSIVE SumSqTo(_, _)
SumSqTo(s, i) == IF i = 0 THEN 0 ELSE s[i] * s[i] + SumSqTo(s, i - 1)
SumSq(s) == SumSqTo(s, Len(s))
\* |H D x|^2 = d |x|^2   (the 1/sqrt(d) scaling makes the rotation norm preserving)
RotationNorm == (Done /\ Mode = "rotation") => SumSq(out) = n * SumSq(x)
\* H applied to the rotated vector, signs undone, gives d times the padded input: the inverse restores x
RECURSIVE HadRowTo(_, _, _)
HadRowTo(i, v, k) == IF k = 0 THEN 0 ELSE v[k] * Had(i, k - 1) + HadRowTo(i, v, k - 1)
HadRow(i, v) == HadRowTo(i, v, Len(v))
RotationInverse == (Done /\ Mode = "rotation") =>
                      \A i \in 1..n : HadRow(i - 1, out) * signs[i] = n * (IF i <= Len(x) THEN x[i] ELSE 0)
Emit == (Done /\ Mode = "transform" /\ jcol = 0 /\ b = 2) => PrintT("JSON " \o ToJson([n |-> n, row0 |-> out]))
EmitMatrix == (Done /\ Mode = "transform") => PrintT("JSON " \o ToJson([n |-> n, b |-> b, j |-> jcol, col |-> out]))
=============================================================================
