------------------------------- MODULE Purity -------------------------------
(***************************************************************************)
(* Histories of a federated algorithm used as a pure function              *)
(*        apply : (server state, cohort) -> (server state, diagnostics).    *)
(* A history is a tree of states: Apply(i, c) creates a new state from     *)
(* state i and cohort c (the same state may be applied several times, with *)
(* the same or different cohorts), Roundtrip(i) serialises state i and     *)
(* restores it as a new state.  The value of a state is the sequence of    *)
(* cohorts that produced it.  Serves C10.                                  *)
(* Deviations: MutatesInput (apply also changes the state it was given),   *)
(* HiddenState (the result depends on how many rounds the algorithm object *)
(* has executed before), LossyRoundtrip.                                   *)
(***************************************************************************)
EXTENDS Integers, Sequences, FiniteSets, TLC, Json

CONSTANTS MaxOps, NumCohorts, MutatesInput, HiddenState, LossyRoundtrip

VARIABLES nodes,   \* sequence of [val, orig, parentval, cohort]: current value, value at creation, how it was made
          calls, hist
vars == <<nodes, calls, hist>>

Root == [val |-> <<>>, orig |-> <<>>, parentval |-> <<>>, cohort |-> 0]
Init == nodes = <<Root>> /\ calls = 0 /\ hist = <<>>

Apply(i, c) == /\ Len(hist) < MaxOps /\ i \in 1..Len(nodes) /\ c \in 1..NumCohorts
               /\ LET v == Append(nodes[i].val, <<c, IF HiddenState THEN calls ELSE 0>>)
                      dirty == [nodes EXCEPT ![i].val = Append(@, <<0, 0>>)]
                  IN nodes' = Append(IF MutatesInput THEN dirty ELSE nodes,
                                     [val |-> v, orig |-> v, parentval |-> nodes[i].val, cohort |-> c])
               /\ calls' = calls + 1
               /\ hist' = Append(hist, [op |-> "apply", i |-> i, c |-> c])
Roundtrip(i) == /\ Len(hist) < MaxOps /\ i \in 1..Len(nodes)
                /\ LET v == IF LossyRoundtrip /\ nodes[i].val # <<>> THEN Tail(nodes[i].val) ELSE nodes[i].val
                   IN nodes' = Append(nodes, [val |-> v, orig |-> v, parentval |-> nodes[i].parentval, cohort |-> nodes[i].cohort])
                /\ hist' = Append(hist, [op |-> "roundtrip", i |-> i, c |-> 0])
                /\ UNCHANGED calls
ApplyStep == \E i \in 1..Len(nodes), c \in 1..NumCohorts : Apply(i, c)
RoundtripStep == \E i \in 1..Len(nodes) : Roundtrip(i)
Next == ApplyStep \/ RoundtripStep
Spec == Init /\ [][Next]_vars

\* calling the round again with the same arguments returns the same new state
Functional == \A j, k \in 2..Len(nodes) :
                 (nodes[j].parentval = nodes[k].parentval /\ nodes[j].cohort = nodes[k].cohort) => nodes[j].orig = nodes[k].orig
\* the caller's server state keeps its value
Immutable == \A i \in 1..Len(nodes) : nodes[i].val = nodes[i].orig
\* a restored copy is as good as the original
RoundtripTransparent == \A j \in 2..Len(nodes) :
                           (j <= Len(hist) + 1 /\ hist[j - 1].op = "roundtrip") => nodes[j].val = nodes[hist[j - 1].i].val
Emit == (Len(hist) = MaxOps) => PrintT("JSON " \o ToJson([hist |-> hist]))
=============================================================================
