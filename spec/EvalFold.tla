------------------------------ MODULE EvalFold ------------------------------
(***************************************************************************)
(* fedjax.evaluate_model / metrics.evaluate_batch as a fold: every batch   *)
(* is a sequence of slots (a real example or a masked padding row with     *)
(* arbitrary content), evaluate_batch replaces the statistics of masked    *)
(* rows by the metric's zero BEFORE reducing, and the batch statistic is   *)
(* merged into the running one.  The layout (which examples, in which      *)
(* order, cut into which batches, padded where) is built step by step, so  *)
(* TLC visits every layout within the bounds.  Serves C05.                 *)
(* Bank: the single-example statistics available; each is a sequence of    *)
(* components [a, w] (length 1 for scalar metrics, one per position /      *)
(* domain / matrix cell otherwise), merged component-wise.                 *)
(* Garbage: statistics a padding row may evaluate to.                      *)
(* Toggles: MaskBeforeReduce (FALSE: padded rows are reduced in),          *)
(*          Sanitize (FALSE: merge/new keep a non-positive weight),        *)
(*          LeadingPadSkips (TRUE: a batch whose first row is padding is   *)
(*          skipped altogether).                                           *)
(***************************************************************************)
EXTENDS MetricDefs, Json

CONSTANTS Bank, Garbage, Kind,        \* Kind = "mean" (MeanStat) or "sum" (SumStat; w ignored)
          MaxN, MaxSlots, MaxPads, MaxBatches,
          MaskBeforeReduce, Sanitize, LeadingPadSkips

VARIABLES todo,      \* bank indices still to be placed (a set: any order)
          used,      \* bank indices placed so far, in order
          layout,    \* closed batches: sequences of slots (bank index, or 0 for padding)
          cur,       \* the batch being built
          pads,      \* padding rows in the batch being built
          bstat,     \* running statistic of the batch being built
          acc,       \* running statistic over closed batches
          skipcur    \* the deviation LeadingPadSkips decided to skip this batch
vars == <<todo, used, layout, cur, pads, bstat, acc, skipcur>>

D == IF Len(Bank) = 0 THEN 1 ELSE Len(Bank[1])
Z1 == [a |-> 0, w |-> 0]
N1(a, w) == IF Kind = "sum" THEN [a |-> a, w |-> 0]
            ELSE IF Sanitize THEN New(a, w) ELSE [a |-> a, w |-> w]
Z == [c \in 1..D |-> Z1]
N2(v) == [c \in 1..D |-> N1(v[c].a, v[c].w)]
M2(s, t) == [c \in 1..D |-> N1(s[c].a + t[c].a, s[c].w + t[c].w)]

Init == /\ todo \in {S \in SUBSET (1..Len(Bank)) : Cardinality(S) <= MaxN}
        /\ used = <<>> /\ layout = <<>> /\ cur = <<>> /\ pads = 0 /\ bstat = Z /\ acc = Z /\ skipcur = FALSE

PlaceExample(i) == /\ i \in todo /\ Len(cur) < MaxSlots /\ Len(layout) < MaxBatches
                   /\ todo' = todo \ {i} /\ used' = Append(used, i) /\ cur' = Append(cur, i)
                   /\ bstat' = M2(bstat, N2(Bank[i]))
                   /\ UNCHANGED <<layout, pads, acc, skipcur>>
\* a masked padding row whose (arbitrary) content evaluates to the statistic g
PlacePad(g) == /\ g \in Garbage /\ Len(cur) < MaxSlots /\ pads < MaxPads /\ Len(layout) < MaxBatches
               /\ cur' = Append(cur, 0) /\ pads' = pads + 1
               /\ bstat' = IF MaskBeforeReduce THEN M2(bstat, Z) ELSE M2(bstat, g)
               /\ skipcur' = (skipcur \/ (LeadingPadSkips /\ cur = <<>>))
               /\ UNCHANGED <<todo, used, layout, acc>>
CloseBatch == /\ cur # <<>>
              /\ layout' = Append(layout, cur) /\ acc' = (IF skipcur THEN acc ELSE M2(acc, bstat))
              /\ cur' = <<>> /\ pads' = 0 /\ bstat' = Z /\ skipcur' = FALSE
              /\ UNCHANGED <<todo, used>>

Next == (\E i \in 1..Len(Bank) : PlaceExample(i)) \/ (\E g \in Garbage : PlacePad(g)) \/ CloseBatch
Spec == Init /\ [][Next]_vars

RECURSIVE MergeUsed(_)
MergeUsed(k) == IF k = 0 THEN Z ELSE M2(MergeUsed(k - 1), N2(Bank[used[k]]))
\* merging one by one, in any other order, gives the same: (commutative monoid on the bank's domain)
RECURSIVE MergeSet(_)
MergeSet(S) == IF S = {} THEN Z ELSE LET i == CHOOSE x \in S : TRUE IN M2(N2(Bank[i]), MergeSet(S \ {i}))

AtBoundary == cur = <<>>
\* evaluating any layout = merging the single-example statistics one by one
FoldInvariant == AtBoundary => acc = MergeUsed(Len(used))
OrderInvariant == AtBoundary => acc = MergeSet({used[k] : k \in 1..Len(used)})
\* an empty or fully masked input yields the zero statistic (result 0, never NaN)
EmptyIsZero == (AtBoundary /\ used = <<>>) => (acc = Z /\ \A c \in 1..D : Result(acc[c]) = <<0, 1>>)
\* weights never go negative and the zero statistic is the only one with weight 0 (MeanStat domain)
InDomain == Kind = "mean" => \A c \in 1..D : (acc[c].w >= 0 /\ (acc[c].w = 0 => acc[c].a = 0))
\* monoid laws on the bank (checked once, in the initial state)
MonoidLaws == (used = <<>> /\ layout = <<>> /\ cur = <<>>) =>
                 \A i, j, k \in 1..Len(Bank) :
                    LET s == N2(Bank[i]) t == N2(Bank[j]) u == N2(Bank[k])
                    IN /\ M2(s, t) = M2(t, s) /\ M2(M2(s, t), u) = M2(s, M2(t, u)) /\ M2(s, Z) = s /\ M2(Z, s) = s

Complete == todo = {} /\ cur = <<>>
Emit == Complete => PrintT("JSON " \o ToJson([layout |-> layout, a |-> [c \in 1..D |-> acc[c].a], w |-> [c \in 1..D |-> acc[c].w]]))
=============================================================================
