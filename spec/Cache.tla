------------------------------- MODULE Cache -------------------------------
(***************************************************************************)
(* fedjax.datasets.downloads: maybe_download followed by                   *)
(* maybe_lzma_decompress (as cifar100.load_split, emnist, shakespeare and  *)
(* stackoverflow loaders call them), one action per file-system / network  *)
(* effect, with process kills and I/O errors enabled at every step.        *)
(* Serves property C19.                                                    *)
(*                                                                         *)
(* Sizes are in abstract units; a transfer block is Block units, so a torn *)
(* write (a kill in the middle of a block) is representable.               *)
(* Toggles: AtomicDownload / AtomicDecomp = FALSE write straight into the  *)
(* final name (the latter is what the pinned code did for decompression).  *)
(***************************************************************************)
EXTENDS Integers, Sequences, FiniteSets, TLC

CONSTANTS Total,        \* size of the downloaded (compressed) payload
          DTotal,       \* size of the decompressed payload
          Block,        \* units written per write call
          MaxFaults, AtomicDownload, AtomicDecomp, StalePartial

VARIABLES pc, fs, wname, net, faults, ret

vars == <<pc, fs, wname, net, faults, ret>>

NoFile == [exists |-> FALSE, size |-> 0, good |-> TRUE]
Empty == [exists |-> TRUE, size |-> 0, good |-> TRUE]
BaseNames == {"final", "partial", "decomp", "dtmp"}
SizeOf(n) == IF n \in {"final", "partial"} THEN Total ELSE DTotal
Complete(f, n) == f.exists /\ f.size = SizeOf(n) /\ f.good
Min(a, b) == IF a < b THEN a ELSE b

Init == /\ pc = "dl_check" /\ wname = "" /\ net = 0 /\ faults = 0 /\ ret = <<>>
        /\ \E s \in (IF StalePartial THEN 0..Total ELSE {0}) :
             fs = [n \in BaseNames |-> IF n = "partial" /\ StalePartial
                                       THEN [exists |-> TRUE, size |-> s, good |-> TRUE] ELSE NoFile]

(* ---- maybe_download ---- *)
DlCheck == /\ pc = "dl_check"
           /\ pc' = IF fs["final"].exists THEN "dl_done" ELSE "dl_open"
           /\ UNCHANGED <<fs, wname, net, faults, ret>>
\* opening the output file and issuing the request may happen in either order
DlOpen(n) == /\ pc \in {"dl_open", "dl_open_got"} /\ n \in DOMAIN fs
             /\ fs' = [fs EXCEPT ![n] = Empty] /\ wname' = n
             /\ pc' = IF pc = "dl_open" THEN "dl_get" ELSE "dl_write"
             /\ UNCHANGED <<net, faults, ret>>
DlGet == /\ pc \in {"dl_get", "dl_open"} /\ net' = net + 1
         /\ pc' = IF pc = "dl_get" THEN "dl_write" ELSE "dl_open_got"
         /\ UNCHANGED <<fs, wname, faults, ret>>
\* one block lands (k units); k is what is left when less than a block remains
DlWrite(k) == /\ pc = "dl_write" /\ k > 0 /\ fs[wname].size + k <= Total
              /\ fs' = [fs EXCEPT ![wname].size = @ + k]
              /\ UNCHANGED <<pc, wname, net, faults, ret>>
DlClose == /\ pc = "dl_write" /\ fs[wname].size = Total
           /\ pc' = IF wname = "final" THEN "dl_done" ELSE "dl_rename"
           /\ UNCHANGED <<fs, wname, net, faults, ret>>
DlRename(src, dst) == /\ pc = "dl_rename" /\ src = wname /\ dst = "final"
                      /\ fs' = [fs EXCEPT ![dst] = fs[src], ![src] = NoFile]
                      /\ pc' = "dl_done" /\ wname' = ""
                      /\ UNCHANGED <<net, faults, ret>>
DlReturn == /\ pc = "dl_done" /\ ret' = Append(ret, "final") /\ pc' = "dc_check"
            /\ UNCHANGED <<fs, wname, net, faults>>

(* ---- maybe_lzma_decompress ---- *)
DcCheck == /\ pc = "dc_check"
           /\ pc' = IF fs["decomp"].exists THEN "dc_done" ELSE "dc_open"
           /\ UNCHANGED <<fs, wname, net, faults, ret>>
DcOpen(n) == /\ pc = "dc_open" /\ n \in DOMAIN fs /\ n \notin {"final", "partial"}
             /\ fs' = [fs EXCEPT ![n] = Empty] /\ wname' = n /\ pc' = "dc_copy"
             /\ UNCHANGED <<net, faults, ret>>
\* the decompressed bytes are whatever the compressed input yields: complete only from a complete input
DcCopy(k) == /\ pc = "dc_copy" /\ k > 0 /\ fs[wname].size + k <= DTotal
             /\ fs' = [fs EXCEPT ![wname].size = @ + k, ![wname].good = Complete(fs["final"], "final")]
             /\ UNCHANGED <<pc, wname, net, faults, ret>>
DcClose == /\ pc = "dc_copy" /\ fs[wname].size = DTotal
           /\ pc' = IF wname = "decomp" THEN "dc_done" ELSE "dc_rename"
           /\ UNCHANGED <<fs, wname, net, faults, ret>>
DcRename(src, dst) == /\ pc = "dc_rename" /\ src = wname /\ dst = "decomp"
                      /\ fs' = [fs EXCEPT ![dst] = fs[src], ![src] = NoFile]
                      /\ pc' = "dc_done" /\ wname' = ""
                      /\ UNCHANGED <<net, faults, ret>>
DcReturn == /\ pc = "dc_done" /\ ret' = Append(ret, "decomp") /\ pc' = "done"
            /\ UNCHANGED <<fs, wname, net, faults>>

(* ---- environment ---- *)
\* a kill in the middle of a write call: only part of the block lands, then the process is gone
Torn(j) == /\ pc \in {"dl_write", "dc_copy"} /\ faults < MaxFaults
           /\ fs[wname].size + j < SizeOf(wname) /\ j \in 1..(Block - 1)
           /\ fs' = [fs EXCEPT ![wname].size = @ + j]
           /\ faults' = faults + 1 /\ pc' = "dl_check" /\ wname' = "" /\ ret' = <<>>
           /\ UNCHANGED net
\* process kill or an I/O error propagating to the caller; either way the caller starts over
Fault == /\ pc \notin {"done", "raising"} /\ faults < MaxFaults
         /\ faults' = faults + 1 /\ pc' = "dl_check" /\ wname' = "" /\ ret' = <<>>
         /\ UNCHANGED <<fs, net>>
\* an exception (network failure, I/O error) unwinds through the `with` block: the file being written is closed as is
Abandon == /\ pc \in {"dl_get", "dl_write", "dc_copy"} /\ wname # "" /\ faults < MaxFaults
           /\ faults' = faults + 1 /\ pc' = "raising"
           /\ UNCHANGED <<fs, wname, net, ret>>
\* ... and reaches the caller, who starts over
Raised == /\ pc = "raising" /\ pc' = "dl_check" /\ wname' = "" /\ ret' = <<>>
          /\ UNCHANGED <<fs, net, faults>>
\* removing a leftover; a complete cache entry may not be removed
Remove(n) == /\ n \in DOMAIN fs /\ fs[n].exists
             /\ (n \in {"final", "decomp"} => ~Complete(fs[n], n))
             /\ fs' = [fs EXCEPT ![n] = NoFile]
             /\ UNCHANGED <<pc, wname, net, faults, ret>>
\* calling again although everything is cached
Recall == /\ pc = "done" /\ faults < MaxFaults /\ faults' = faults + 1 /\ pc' = "dl_check" /\ ret' = <<>>
          /\ UNCHANGED <<fs, wname, net>>

DlOpenStep == DlOpen(IF AtomicDownload THEN "partial" ELSE "final")
DcOpenStep == DcOpen(IF AtomicDecomp THEN "dtmp" ELSE "decomp")
Program == \/ DlCheck \/ DlOpenStep \/ DlGet \/ DlWrite(Min(Block, Total - fs[wname].size)) \/ DlClose
           \/ DlRename(wname, "final") \/ DlReturn
           \/ DcCheck \/ DcOpenStep \/ DcCopy(Min(Block, DTotal - fs[wname].size)) \/ DcClose \/ DcRename(wname, "decomp")
           \/ DcReturn \/ Raised
Next == Program \/ Fault \/ Recall \/ Abandon \/ (\E j \in 1..Block : Torn(j))
Spec == Init /\ [][Next]_vars /\ WF_vars(Program)

(* ---- properties (C19) ---- *)
FinalCompleteOrAbsent == \A n \in {"final", "decomp"} : fs[n].exists => Complete(fs[n], n)
ReturnsComplete == /\ (Len(ret) >= 1 => Complete(fs["final"], "final"))
                   /\ (Len(ret) >= 2 => Complete(fs["decomp"], "decomp"))
\* an already complete cached file is reused without touching the network
ReuseWithoutNetwork == [][net' # net => ~fs["final"].exists]_vars
\* a complete cache entry is never modified or removed again
CompleteIsStable == [][\A n \in {"final", "decomp"} : Complete(fs[n], n) => fs'[n] = fs[n]]_vars
EventuallyRepaired == <>(pc = "done")
=============================================================================
