-------------------------------- MODULE Clip --------------------------------
(***************************************************************************)
(* fedjax.core.tree_util.tree_clip_by_global_norm on vectors whose         *)
(* Euclidean norm is an integer (Pythagorean tuples), so that clipping is  *)
(* exact rational arithmetic: steps Norm (tree_l2_norm), Scale             *)
(* (min(1, max_norm / norm)), Apply.  The bound is the rational cn / cd.   *)
(* Serves C07 (last clause) and C17 (MimeLite clipping).                   *)
(* Toggle MinWithOne (FALSE: scale = max_norm / norm without the min).     *)
(***************************************************************************)
EXTENDS Integers, Sequences, FiniteSets, TLC, Json

CONSTANTS MinWithOne

Table == { [v |-> <<3, 4>>, n |-> 5], [v |-> <<0, 5>>, n |-> 5], [v |-> <<6, 8>>, n |-> 10], [v |-> <<5, 12>>, n |-> 13],
           [v |-> <<1, 2, 2>>, n |-> 3], [v |-> <<2, 3, 6>>, n |-> 7], [v |-> <<0, 0, 0>>, n |-> 0],
           [v |-> <<1, 0>>, n |-> 1], [v |-> <<2, 10, 11>>, n |-> 15], [v |-> <<7>>, n |-> 7] }
Signs == {0 - 1, 1}
BoundsN == {1, 2, 3, 5, 7, 10, 13, 15, 26}
BoundsD == {1, 2}

VARIABLES v, norm, cn, cd, phase, sn, sd, out
vars == <<v, norm, cn, cd, phase, sn, sd, out>>

Init == /\ \E t \in Table, s \in Signs, s2 \in Signs :
             /\ v = [i \in 1..Len(t.v) |-> IF i = 1 THEN s * t.v[i] ELSE IF i = 2 THEN s2 * t.v[i] ELSE t.v[i]]
             /\ norm = t.n
        /\ cn \in BoundsN /\ cd \in BoundsD
        /\ phase = "scale" /\ sn = 1 /\ sd = 1 /\ out = <<>>

\* scale = min(1, max_norm / global_norm); for a zero vector max_norm / 0 = inf, so the scale is 1
Scale == /\ phase = "scale"
         /\ IF norm = 0 THEN sn' = 1 /\ sd' = 1
            ELSE IF MinWithOne /\ cn >= norm * cd THEN sn' = 1 /\ sd' = 1      \* max_norm / norm >= 1
            ELSE sn' = cn /\ sd' = norm * cd
         /\ phase' = "apply" /\ UNCHANGED <<v, norm, cn, cd, out>>
\* every leaf multiplied by the scale: out[i] = v[i] * sn / sd, kept as numerators over the common denominator sd
Apply == /\ phase = "apply" /\ out' = [i \in 1..Len(v) |-> v[i] * sn] /\ phase' = "done"
         /\ UNCHANGED <<v, norm, cn, cd, sn, sd>>
Next == Scale \/ Apply
Spec == Init /\ [][Next]_vars

SumSq(s) == LET RECURSIVE F(_)
                F(i) == IF i = 0 THEN 0 ELSE s[i] * s[i] + F(i - 1)
            IN F(Len(s))
AtEnd == phase = "done"
\* |out|^2 <= bound^2   <=>   SumSq(out) * cd^2 <= cn^2 * sd^2
NormAtMost == AtEnd => SumSq(out) * cd * cd <= cn * cn * sd * sd
\* out is a non-negative multiple of v
SameDirection == AtEnd => (sn >= 0 /\ sd > 0 /\ \A i \in 1..Len(v) : out[i] = v[i] * sn)
\* below the bound nothing changes
IdentityBelow == (AtEnd /\ norm * cd <= cn) => (sn = sd)
\* above the bound the result has exactly the bound as norm
ExactlyBoundAbove == (AtEnd /\ norm * cd > cn) => SumSq(out) * cd * cd = cn * cn * sd * sd
Emit == AtEnd => PrintT("JSON " \o ToJson([v |-> v, cn |-> cn, cd |-> cd, num |-> out, den |-> sd]))
=============================================================================
