--------------------------- MODULE AlgHistoryTrace ---------------------------
(* Trace validation for AlgHistory: one trace = one multi-round history in    *)
(* which agnostic federated averaging, APFL and HypCluster were run on the    *)
(* same cohorts.  Each Round event carries the round's inputs (cohort,        *)
(* per-domain example counts, clients with examples) and what the real        *)
(* states showed afterwards (window, stored client ids, cluster of each       *)
(* client, which clusters changed), plus driver-evaluated numeric flags.      *)
EXTENDS AlgHistory, TraceBatch

tvars == <<vars, tid, l>>
TraceInit == /\ BatchInit /\ round = 0 /\ window = [i \in 1..W |-> InitCounts] /\ counts_hist = <<>>
             /\ stored = {} /\ participated = {} /\ version = [k \in Clusters |-> 0] /\ lastTouched = {}

ToSet(s) == {s[x] : x \in 1..Len(s)}
AssignOf(pairs) == [c \in {pairs[x][1] : x \in 1..Len(pairs)} |-> pairs[CHOOSE x \in 1..Len(pairs) : pairs[x][1] = c][2]]
TRound == /\ IsEvent("Round")
          /\ Round(ToSet(Ev.cohort), Ev.counts, AssignOf(Ev.assign), ToSet(Ev.busy))
          /\ window' = Ev.window                          \* the real sliding window
          /\ stored' = ToSet(Ev.stored)                   \* the real APFL client-state table
          /\ {k \in Clusters : version'[k] # version[k]} = ToSet(Ev.changed)     \* clusters whose params / optimizer state changed
          /\ Ev.weights_simplex /\ Ev.coefficients_in_unit_interval /\ Ev.assigned_to_min_loss_cluster
\* the real APFL evaluation function was run on `who`; the table is read off the real state afterwards
TEval == /\ IsEvent("Eval") /\ Evaluate(ToSet(Ev.who))
         /\ stored' = ToSet(Ev.stored) /\ Ev.finite
TEnd == IsEvent("End") /\ UNCHANGED vars
TraceNext == TRound \/ TEval \/ TEnd
Verdicts == /\ Progress(<<round, window, stored, version>>)
            /\ Check("WindowIsRecent", WindowIsRecent, TRUE)
            /\ Check("StoredOnlyParticipants", StoredOnlyParticipants, TRUE)
            /\ OkSoFar
=============================================================================
