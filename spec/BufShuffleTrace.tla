--------------------------- MODULE BufShuffleTrace ---------------------------
(* Trace validation for BufShuffle: one trace = one real pass of            *)
(* buffered_shuffle (directly, or inside shuffled_clients /                 *)
(* buffered_shuffle_batch_client_datasets); events: Init (buffer after the  *)
(* initial shuffle, when the harness' rng saw it; -1 = not logged), Yield   *)
(* (item, swap index or -1 when the rng is internal), End.                  *)
EXTENDS BufShuffle, TraceBatch

tvars == <<vars, tid, l>>

TraceInit == /\ BatchInit
             /\ len = Traces[tid].len /\ b = Traces[tid].b
             /\ src = [j \in 1..len |-> j] /\ buf = <<>> /\ out = <<>> /\ phase = "fill"

M == Min(b, len)
\* the permutation that produced a logged buffer
PermOfBuf(bf) == [j \in 1..M |-> bf[j]]
TInitLogged == /\ IsEvent("Init") /\ Ev.logged /\ Len(Ev.buf) = M /\ Fill(PermOfBuf(Ev.buf))
TInitFree == /\ IsEvent("Init") /\ ~Ev.logged /\ \E p \in Permutations(1..M) : Fill(p)
TYield == /\ IsEvent("Yield")
          /\ \/ (\E s \in 0..(b - 1) : (Ev.swap = 0 - 1 \/ Ev.swap = s) /\ Swap(s))
             \/ Drain
          /\ out'[Len(out')] = Ev.v
TEnd == IsEvent("End") /\ phase = "done" /\ UNCHANGED vars
Silent == Finish /\ UNCHANGED <<tid, l>>
TraceNext == TInitLogged \/ TInitFree \/ TYield \/ TEnd \/ Silent

NonTrivialOrder == (l > NEv /\ T.expect_shuffled) => out # [j \in 1..len |-> j]
Verdicts == /\ Progress(<<phase, Len(src), Len(out)>>)
            /\ Check("Conservation", Conservation, TRUE)
            /\ Check("EmitsEachOnce", EmitsEachOnce, TRUE)
            /\ Check("NotBeforeBuffered", NotBeforeBuffered, TRUE)
            /\ Check("NonTrivialOrder", NonTrivialOrder, TRUE)
            /\ OkSoFar
=============================================================================
