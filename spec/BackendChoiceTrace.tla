-------------------------- MODULE BackendChoiceTrace --------------------------
(* Trace validation for BackendChoice: one trace = what ONE real thread        *)
(* observed (its program, the values get returned) while other threads were    *)
(* running freely; isolation means the observations equal the sequential       *)
(* meaning of the thread's own program.                                        *)
EXTENDS BackendChoice, TraceBatch

tvars == <<vars, tid, l>>
TraceInit == /\ BatchInit
             /\ prog = [t \in Threads |-> Traces[tid].prog]
             /\ pcs = [t \in Threads |-> 1] /\ choice = [t \in Threads |-> "none"]
             /\ stack = [t \in Threads |-> <<>>] /\ obs = [t \in Threads |-> <<>>] /\ hist = <<>>
Silent == Next /\ UNCHANGED <<tid, l>>
TEnd == IsEvent("End") /\ Finished /\ \A t \in Threads : obs[t] = T.obs /\ UNCHANGED vars
TraceNext == Silent \/ TEnd
Verdicts == /\ Progress(<<pcs, obs>>)
            /\ Check("ThreadIsolation", ThreadIsolation, TRUE)
            /\ OkSoFar
=============================================================================
