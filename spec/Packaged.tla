------------------------------- MODULE Packaged -------------------------------
(***************************************************************************)
(* Packaged dataset preprocessors (package fedjax.datasets) as exact fns:   *)
(*  "tokenizer"   shakespeare.preprocess_client: snippets (byte strings)   *)
(*                -> label stream BOS chars EOS per snippet, inputs =      *)
(*                stream without its last label, targets = stream without  *)
(*                its first, both padded to a multiple of the sequence     *)
(*                length and reshaped.  Bytes are abstracted to classes    *)
(*                1, 2 (in vocabulary) and 3 (out of vocabulary).          *)
(*  "standardize" cifar100.preprocess_image_tff (eval): per-image          *)
(*                standardisation (x - mean) / max(std, 1/sqrt(N)) in      *)
(*                squared, rational form for images with at most three     *)
(*                distinct pixel values.                                   *)
(*  "domain"      emnist.domain_id: writers 2100..2599 -> 0, others -> 1.  *)
(* Serves C20.  Deviations: StdFloorInverse (FALSE: floor sqrt(N) instead  *)
(* of 1/sqrt(N)), ShiftByOne (FALSE: targets are not shifted).             *)
(***************************************************************************)
EXTENDS Rationals, FiniteSets, TLC, Json

CONSTANTS Mode, MaxSnippets, MaxSnipLen, MaxSeqLen, StdFloorInverse, ShiftByOne

PAD == 0
BOS == 1
EOS == 2
LabelOf(c) == IF c = 3 THEN 99 ELSE 2 + c      \* byte classes 1, 2 -> labels 3, 4 ; class 3 -> the OOV label
OOVL == 99
Vocab == {PAD, BOS, EOS, 3, 4, OOVL}

VARIABLES snippets, seqlen, joined, x, y, phase,      \* tokenizer
          vals, counts, std,                          \* standardize
          writer, dom                                  \* domain
vars == <<snippets, seqlen, joined, x, y, phase, vals, counts, std, writer, dom>>

Snips == UNION {[1..k -> 1..3] : k \in 0..MaxSnipLen}
\* images as <<value, number of pixels>> lists; the pixel count is 3 c^2 for a c x c crop of an RGB image
Images == { <<<<0, 10>>, <<5, 2>>>>, <<<<7, 12>>>>, <<<<100, 11>>, <<101, 1>>>>, <<<<0, 6>>, <<255, 6>>>>,
            <<<<10, 9>>, <<20, 9>>, <<60, 9>>>>, <<<<3, 1>>, <<4, 2>>>>, <<<<128, 3>>>>, <<<<128, 47>>, <<129, 1>>>>,
            <<<<0, 1>>, <<1, 11>>>>, <<<<200, 24>>, <<201, 24>>>> }

Init == /\ IF Mode = "tokenizer"
           THEN /\ snippets \in UNION {[1..k -> Snips] : k \in 0..MaxSnippets} /\ seqlen \in 2..MaxSeqLen
           ELSE snippets = <<>> /\ seqlen = 2
        /\ IF Mode = "standardize" THEN \E im \in Images : vals = [i \in 1..Len(im) |-> im[i][1]] /\ counts = [i \in 1..Len(im) |-> im[i][2]]
           ELSE vals = <<>> /\ counts = <<>>
        /\ IF Mode = "domain" THEN writer \in 0..9999 ELSE writer = 0
        /\ joined = <<>> /\ x = <<>> /\ y = <<>> /\ std = <<>> /\ dom = 0 - 1 /\ phase = "todo"

(* ---- tokenizer ---- *)
RECURSIVE JoinAll(_)
JoinAll(ss) == IF ss = <<>> THEN <<>>
               ELSE <<BOS>> \o [i \in 1..Len(Head(ss)) |-> LabelOf(Head(ss)[i])] \o <<EOS>> \o JoinAll(Tail(ss))
PadTo(s, n) == s \o [i \in 1..(n - Len(s)) |-> PAD]
Rows(s, L) == [r \in 1..(Len(s) \div L) |-> SubSeq(s, (r - 1) * L + 1, r * L)]
Tokenize == /\ Mode = "tokenizer" /\ phase = "todo"
            /\ LET j == JoinAll(snippets)
                   jl == Len(j)
                   pl == IF jl = 0 THEN 0 ELSE (((jl - 1) + seqlen - 1) \div seqlen) * seqlen
                   inp == IF jl = 0 THEN <<>> ELSE SubSeq(j, 1, jl - 1)
                   out == IF jl = 0 THEN <<>> ELSE IF ShiftByOne THEN SubSeq(j, 2, jl) ELSE SubSeq(j, 1, jl - 1)
               IN /\ joined' = j /\ x' = Rows(PadTo(inp, pl), seqlen) /\ y' = Rows(PadTo(out, pl), seqlen)
            /\ phase' = "done" /\ UNCHANGED <<snippets, seqlen, vals, counts, std, writer, dom>>

(* ---- standardize: mean, variance and the squared outputs as rationals ---- *)
RECURSIVE SumC(_, _)
SumC(f(_), i) == IF i = 0 THEN RZero ELSE RAdd(f(i), SumC(f, i - 1))
Standardize == /\ Mode = "standardize" /\ phase = "todo"
               /\ LET k == Len(vals)
                      n == LET RECURSIVE S(_)
                               S(i) == IF i = 0 THEN 0 ELSE counts[i] + S(i - 1)
                           IN S(k)
                      mean == LET RECURSIVE S(_)
                                  S(i) == IF i = 0 THEN RZero ELSE RAdd(Norm(vals[i] * counts[i], n), S(i - 1))
                              IN S(k)
                      dev(i) == RSub(R(vals[i]), mean)
                      var == LET RECURSIVE S(_)
                                 S(i) == IF i = 0 THEN RZero ELSE RAdd(RMul(RMul(dev(i), dev(i)), Norm(counts[i], n)), S(i - 1))
                             IN S(k)
                      floor2 == IF StdFloorInverse THEN <<1, n>> ELSE R(n)          \* (1/sqrt(N))^2  resp.  sqrt(N)^2
                      adj2 == IF RLe(var, floor2) THEN floor2 ELSE var
                  IN std' = [i \in 1..k |-> [sq |-> RDiv(RMul(dev(i), dev(i)), adj2),
                                             sign |-> IF dev(i)[1] > 0 THEN 1 ELSE IF dev(i)[1] < 0 THEN 0 - 1 ELSE 0,
                                             n |-> n, var |-> var]]
               /\ phase' = "done" /\ UNCHANGED <<snippets, seqlen, joined, x, y, vals, counts, writer, dom>>

(* ---- domain ---- *)
Domain == /\ Mode = "domain" /\ phase = "todo"
          /\ dom' = IF 2100 <= writer /\ writer <= 2599 THEN 0 ELSE 1
          /\ phase' = "done" /\ UNCHANGED <<snippets, seqlen, joined, x, y, vals, counts, std, writer>>

Next == Tokenize \/ Standardize \/ Domain
Spec == Init /\ [][Next]_vars

Done == phase = "done"
RECURSIVE Flat(_)
Flat(s) == IF s = <<>> THEN <<>> ELSE Head(s) \o Flat(Tail(s))
Stream == JoinAll(snippets)
NoPad(s) == SelectSeq(s, LAMBDA v : v # PAD)
\* with padding removed the inputs are the label stream without its last label, the targets the stream without its first
UnpaddedInputsAreStream == (Done /\ Mode = "tokenizer" /\ Stream # <<>>) => NoPad(Flat(x)) = SubSeq(Stream, 1, Len(Stream) - 1)
TargetsAreInputsShifted == (Done /\ Mode = "tokenizer" /\ Stream # <<>>) =>
                              /\ NoPad(Flat(y)) = SubSeq(Stream, 2, Len(Stream))
                              /\ \A i \in 1..(Len(Flat(x)) - 1) : Flat(x)[i + 1] # PAD => Flat(y)[i] = Flat(x)[i + 1]
LabelsInVocab == (Done /\ Mode = "tokenizer") => \A i \in 1..Len(Flat(x)) : Flat(x)[i] \in Vocab /\ Flat(y)[i] \in Vocab
PaddingOnlyAtEnd == (Done /\ Mode = "tokenizer") =>
                       \A i \in 1..(Len(Flat(y)) - 1) : Flat(y)[i] = PAD => Flat(y)[i + 1] = PAD
RowsHaveSeqLen == (Done /\ Mode = "tokenizer") => (Len(x) = Len(y) /\ \A r \in 1..Len(x) : Len(x[r]) = seqlen /\ Len(y[r]) = seqlen)
\* unit variance unless the image is (nearly) constant, in which case the 1/sqrt(N) floor applies; a constant image maps to 0
UnitVarianceOrFloor == (Done /\ Mode = "standardize") =>
                          LET k == Len(std)
                              total == LET RECURSIVE S(_)
                                           S(i) == IF i = 0 THEN RZero ELSE RAdd(RMul(std[i].sq, R(counts[i])), S(i - 1))
                                       IN S(k)
                          IN IF RLe(<<1, std[1].n>>, std[1].var) THEN total = R(std[1].n)         \* unit variance
                             ELSE total = RMul(R(std[1].n * std[1].n), std[1].var)                   \* floor: out = sqrt(N) (x - mean)
ConstantImageIsZero == (Done /\ Mode = "standardize" /\ Len(vals) = 1) => std[1].sq = RZero
DomainRange == (Done /\ Mode = "domain") => (dom = 0 <=> (2100 <= writer /\ writer <= 2599))
Emit == Done => PrintT("JSON " \o ToJson(
           IF Mode = "tokenizer" THEN [snippets |-> snippets, seqlen |-> seqlen, x |-> x, y |-> y]
           ELSE IF Mode = "standardize" THEN [vals |-> vals, counts |-> counts, std |-> std]
           ELSE [writer |-> writer, dom |-> dom]))
=============================================================================
