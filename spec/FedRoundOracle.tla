--------------------------- MODULE FedRoundOracle ---------------------------
(* FedRound as an ORACLE for a batch of instances read from TRACE_FILE: each *)
(* instance (data, the batch streams the real code produced, optimizers,     *)
(* cohorts) is run to completion in the canonical client order and the exact *)
(* rational parameters after every round are printed.  The driver compares   *)
(* the real algorithm - under every client listing order and backend - with  *)
(* them.  No events: the "trace" is the instance.                            *)
EXTENDS FedRound, TraceBatch, Json

tvars == <<vars, tid, l>>
TraceInit == /\ BatchInit /\ inst = Traces[tid].inst /\ Start
\* canonical order: always the smallest pending client
Canon == \/ (cur = 0 /\ pending # {} /\ StartClient(CHOOSE c \in pending : \A d \in pending : c <= d))
         \/ ClientStep \/ FinishClient \/ ServerUpdate
TraceNext == Canon /\ UNCHANGED <<tid, l>>
Verdicts == /\ Check("EqualsDefinition", EqualsDefinition, TRUE)
            /\ Check("OneDiagPerClient", OneDiagPerClient, TRUE)
            /\ Check("EmptyRoundFixpoint", EmptyRoundFixpoint, TRUE)
            /\ OkSoFar
EmitOracle == Finished => PrintT("JSON " \o ToJson([tid |-> tid, rounds |-> [r \in 1..Len(hist) |-> hist[r].p],
                                                    sstate |-> sstate]))
=============================================================================
