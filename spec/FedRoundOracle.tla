--------------------------- MODULE FedRoundOracle ---------------------------
(* FedRound as an ORACLE for a batch of instances read from TRACE_FILE: each *)
(* instance (data, the batch streams the real code produced, optimizers,     *)
(* cohorts) is run to completion in the canonical client order and the exact *)
(* rational parameters after every round are printed.  The driver compares   *)
(* the real algorithm - under every client listing order and backend - with  *)
(* them.  No events: the "trace" is the instance.                            *)
EXTENDS FedRound, TraceBatch, Json

tvars == <<vars, tid, l>>
TraceInit == /\ BatchInit /\ inst = Traces[tid].inst /\ Start
\* canonical order: always the first pending position of the cohort
Canon == \/ (cur = 0 /\ pending # {} /\ StartClient(CHOOSE c \in pending : \A d \in pending : c <= d))
         \/ ClientStep \/ FinishClient \/ ServerUpdate
TraceNext == Canon /\ UNCHANGED <<tid, l>>
Verdicts == /\ Check("EqualsDefinition", EqualsDefinition, TRUE)
            /\ Check("OneDiagPerClient", OneDiagPerClient, TRUE)
            /\ Check("EmptyRoundFixpoint", EmptyRoundFixpoint, TRUE)
            /\ OkSoFar
\* Mime with plain SGD and a single local step: one full-batch gradient step over the cohort, scaled by the server
\* learning rate (inst.mime_slr):  w - slr * lr * (w - mean of all examples of the cohort + reg * w), leaf by leaf
\* (the regulariser enters the full-batch gradient exactly once)
RECURSIVE SumAll(_, _, _)
SumAll(P, r, lf) == IF P = {} THEN 0
                   ELSE LET i == CHOOSE x \in P : TRUE
                            c == inst.cohorts[r][i]
                            idx == [j \in 1..Len(inst.data[c]) |-> j]
                        IN SumX(c, idx, lf) + SumAll(P \ {i}, r, lf)
FullBatchGrad(r, w) == LET n == Examples(r)
                       IN [lf \in Leaves |-> IF n = 0 THEN RZero ELSE RSub(w[lf], Norm(SumAll(CohortPos(r), r, lf), n))]
RECURSIVE MimeAfter(_)
MimeAfter(r) == IF r = 0 THEN inst.init
                ELSE LET w == MimeAfter(r - 1)
                         g == [lf \in Leaves |-> RAdd(FullBatchGrad(r, w)[lf], RMul(inst.reg, w[lf]))]
                     \* a cohort without examples takes no client step at all: nobody applies the (regularised) gradient
                     IN IF Examples(r) = 0 THEN w ELSE VSub(w, VScale(g, RMul(inst.mime_slr, inst.copt.lr)))
EmitOracle == Finished => PrintT("JSON " \o ToJson([tid |-> tid, rounds |-> [r \in 1..Len(hist) |-> hist[r].p],
                                                    sstate |-> sstate,
                                                    mime |-> [r \in 1..inst.rounds |-> MimeAfter(r)]]))
=============================================================================
