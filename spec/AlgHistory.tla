----------------------------- MODULE AlgHistory -----------------------------
(***************************************************************************)
(* The bookkeeping that three algorithms carry from round to round:        *)
(*  - agnostic federated averaging: a sliding window (queue of constant    *)
(*    length) of the per-domain example counts of the most recent rounds;  *)
(*  - APFL: a table of per-client states, for participants only;           *)
(*  - HypCluster: which clusters a round updates (exactly those that got   *)
(*    at least one client with examples).                                  *)
(* Cohorts, domain counts and cluster assignments are nondeterministic     *)
(* inputs of each round.  Serves C17.                                      *)
(* Between rounds the personalised models may be EVALUATED on any set of   *)
(* clients (APFL's evaluation function reads the table, with a default for *)
(* clients it does not hold): evaluation changes nothing.                  *)
(* Deviations: SlideOldest (FALSE: the newest entry is overwritten instead *)
(* of the oldest dropped), StoreParticipantsOnly, SkipEmptyClusters,       *)
(* EvalReadOnly (FALSE: evaluating a client stores its default state).     *)
(***************************************************************************)
EXTENDS Integers, Sequences, FiniteSets, TLC

CONSTANTS NumDomains, W, NumClients, NumClusters, MaxRounds, MaxCount,
          SlideOldest, StoreParticipantsOnly, SkipEmptyClusters, EvalReadOnly

Clients == 1..NumClients
Clusters == 1..NumClusters
CountVec == [1..NumDomains -> 0..MaxCount]
InitCounts == [d \in 1..NumDomains |-> 1]

VARIABLES round, window, counts_hist, stored, participated, version, lastTouched
vars == <<round, window, counts_hist, stored, participated, version, lastTouched>>

Init == /\ round = 0 /\ window = [i \in 1..W |-> InitCounts] /\ counts_hist = <<>>
        /\ stored = {} /\ participated = {} /\ version = [k \in Clusters |-> 0] /\ lastTouched = {}

\* server_update: domain_window[1:] + [sum_domain_num]
Slide(win, counts) == IF SlideOldest THEN Append(Tail(win), counts) ELSE Append(SubSeq(win, 1, Len(win) - 1), counts)
\* one round of each algorithm on the same cohort: counts = per-domain examples of the cohort, assign = cluster of
\* each cohort client, busy = cohort clients that have at least one example
Round(cohort, counts, assign, busy) ==
  /\ round < MaxRounds /\ cohort # {} /\ busy \subseteq cohort
  /\ round' = round + 1
  /\ window' = Slide(window, counts) /\ counts_hist' = Append(counts_hist, counts)
  /\ stored' = stored \cup (IF StoreParticipantsOnly THEN cohort ELSE Clients)
  /\ participated' = participated \cup cohort
  /\ LET touched == IF SkipEmptyClusters THEN {assign[c] : c \in busy} ELSE Clusters
     IN /\ version' = [k \in Clusters |-> IF k \in touched THEN version[k] + 1 ELSE version[k]]
        /\ lastTouched' = {assign[c] : c \in busy}
\* evaluation of the personalised models of `who` between two rounds
Evaluate(who) ==
  /\ round < MaxRounds
  /\ stored' = (IF EvalReadOnly THEN stored ELSE stored \cup who)
  /\ UNCHANGED <<round, window, counts_hist, participated, version, lastTouched>>
Next == \/ \E cohort \in SUBSET Clients : \E counts \in CountVec : \E assign \in [cohort -> Clusters] : \E busy \in SUBSET cohort :
             Round(cohort, counts, assign, busy)
        \/ \E who \in SUBSET Clients : Evaluate(who)
Spec == Init /\ [][Next]_vars

\* the window has constant length and holds the most recent per-domain counts (initial entries until W rounds passed)
Recent(i) == LET k == Len(counts_hist) - W + i IN IF k >= 1 THEN counts_hist[k] ELSE InitCounts
WindowIsRecent == Len(window) = W /\ \A i \in 1..W : window[i] = Recent(i)
\* client state only for clients that have participated
StoredOnlyParticipants == stored = participated
\* a round updates exactly the clusters that received a client with examples
OnlyOwnClustersUpdated == [][\A k \in Clusters : (version'[k] # version[k]) <=> (k \in lastTouched')]_vars
=============================================================================
