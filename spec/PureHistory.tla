----------------------------- MODULE PureHistory -----------------------------
(***************************************************************************)
(* Relational facts about observations of the real code (DESIGN 3.4).      *)
(* The driver interns every observed value (digest -> small integer) and   *)
(* logs   Call(key, out)    "the function application identified by key    *)
(*                           returned the value with id out"               *)
(*        Observe(obj, fp)  "object obj currently has fingerprint fp".      *)
(* Functional: a key never maps to two different values (purity,           *)
(* reproducibility, order/backend independence: the key says which         *)
(* applications are required to agree).  Immutable: an object's            *)
(* fingerprint never changes.  Distinct(group): all values logged under a  *)
(* group are pairwise different.                                           *)
(***************************************************************************)
EXTENDS Integers, Sequences, FiniteSets, TLC, TraceBatch

VARIABLES memo, fp, groups, bad
vars == <<memo, fp, groups, bad>>
tvars == <<vars, tid, l>>

TraceInit == BatchInit /\ memo = <<>> /\ fp = <<>> /\ groups = <<>> /\ bad = {}

Has(f, x) == x \in DOMAIN f
Put(f, x, v) == IF Has(f, x) THEN f ELSE [y \in DOMAIN f \cup {x} |-> IF y = x THEN v ELSE f[y]]

Call == /\ IsEvent("Call")
        /\ memo' = Put(memo, Ev.key, Ev.out)
        /\ bad' = IF Has(memo, Ev.key) /\ memo[Ev.key] # Ev.out THEN bad \cup {<<"Functional", Ev.key>>} ELSE bad
        /\ UNCHANGED <<fp, groups>>
Observe == /\ IsEvent("Observe")
           /\ fp' = Put(fp, Ev.obj, Ev.fp)
           /\ bad' = IF Has(fp, Ev.obj) /\ fp[Ev.obj] # Ev.fp THEN bad \cup {<<"Immutable", Ev.obj>>} ELSE bad
           /\ UNCHANGED <<memo, groups>>
\* a value that must differ from every other value logged under the same group
Fresh == /\ IsEvent("Fresh")
         /\ groups' = [y \in DOMAIN groups \cup {Ev.group} |->
                          (IF Has(groups, y) THEN groups[y] ELSE {}) \cup (IF y = Ev.group THEN {Ev.out} ELSE {})]
         /\ bad' = IF Has(groups, Ev.group) /\ Ev.out \in groups[Ev.group] THEN bad \cup {<<"Distinct", Ev.group>>} ELSE bad
         /\ UNCHANGED <<memo, fp>>
\* a plain fact established by the driver's projection (e.g. "no NaN"), recorded so that verdicts stay in one place
Fact == /\ IsEvent("Fact")
        /\ bad' = IF Ev.holds THEN bad ELSE bad \cup {<<Ev.name, Ev.about>>}
        /\ UNCHANGED <<memo, fp, groups>>
TraceNext == Call \/ Observe \/ Fresh \/ Fact

Kinds == {x[1] : x \in bad}
Functional == "Functional" \notin Kinds
Immutable == "Immutable" \notin Kinds
Distinct == "Distinct" \notin Kinds
FactsHold == Kinds \subseteq {"Functional", "Immutable", "Distinct"}
Verdicts == /\ Progress(bad)
            /\ Check("Functional", Functional, TRUE)
            /\ Check("Immutable", Immutable, TRUE)
            /\ Check("Distinct", Distinct, TRUE)
            /\ Check("FactsHold", FactsHold, TRUE)
            /\ OkSoFar
=============================================================================
