"""Datasets whose examples carry decodable ids, and preprocessor chains with known effect (C03, C04, C15)."""
import numpy as np

FEATURE_SETS = ('A', 'B')


def raw_examples(n, variant='A', offset=0):
  """n examples with ids offset+1 .. offset+n."""
  ids = np.arange(offset + 1, offset + n + 1, dtype=np.int32)
  ex = {'id': ids.copy()}
  if variant == 'A':
    ex['x'] = ids.astype(np.int64) * 8
    ex['f'] = (ids[:, None] + np.array([0, .25, .5], np.float32)[None, :]).astype(np.float32)
    ex['b'] = (ids % 2).astype(np.bool_)
  else:
    ex['x'] = ids.astype(np.int64) * 8
    ex['h'] = (ids[:, None, None] * np.ones((1, 2, 2), np.float16)).astype(np.float16)
    ex['e'] = np.zeros((n, 2, 0), np.float32)
    ex['i8'] = (ids % 100).astype(np.int8)
    # fixed-width bytes / str features (their "zero" is the empty string) and a complex one
    ex['s'] = np.array([b'w%d' % (i % 50) for i in ids], dtype='S4')
    ex['u'] = np.array(['t%d' % (i % 7) for i in ids], dtype='U3')
    ex['c'] = (ids + 1j * (ids % 3)).astype(np.complex64)
  return ex


def _p_scale(e):
  return {**e, 'x': e['x'] * 10 + 1}


def _p_add(e):
  return {**e, 'y': (e['id'] + 5).astype(np.int16)}


def _p_double(e):
  return {**e, 'x': e['x'] * 2}


def _p_inplace(e):
  e['id_plus'] = e['id'] + 7
  e['x'] = e['x'] + 1
  return e


CHAINS = {
    0: (),
    1: (_p_scale,),
    2: (_p_add, _p_double),
    3: (_p_inplace,),
    4: (_p_inplace, _p_scale),
    5: (_p_double, _p_add, _p_double),      # one (non-idempotent) function object twice in a chain
}


def apply_chain(chain_id, raw):
  out = {k: v.copy() for k, v in raw.items()}
  for f in CHAINS[chain_id]:
    out = f(out)
  return out


def checksum(ex):
  import hashlib
  h = hashlib.sha1()
  for k in sorted(ex):
    h.update(k.encode())
    h.update(str(ex[k].dtype).encode())
    h.update(str(ex[k].shape).encode())
    h.update(np.ascontiguousarray(ex[k]).tobytes())
  return h.hexdigest()


def check_batch(batch, ref, mask_key='__mask__', base=0):
  """Compares a real batch with the reference (fully preprocessed) examples.

  Returns (ids, mask, padzero, feat_ok): ids decoded from the 'id' feature (0 for padded rows); padzero: every padded
  row of every feature is all zero; feat_ok: every feature of every real row equals the reference row of that id, with
  the reference dtype and trailing shape, and the feature set is the reference's.
  `base`: id of the first reference row minus 1.
  """
  mask = batch.get(mask_key)
  ids = np.asarray(batch['id'])
  rows = ids.shape[0]
  if mask is None:
    mask_arr = np.ones((rows,), np.bool_)
  else:
    mask_arr = np.asarray(mask)
  feat_ok = set(batch) - {mask_key} == set(ref)
  padzero = True
  for k, v in batch.items():
    if k == mask_key:
      continue
    v = np.asarray(v)
    if k not in ref:
      feat_ok = False
      continue
    if v.dtype != ref[k].dtype or v.shape[1:] != ref[k].shape[1:] or v.shape[0] != rows:
      feat_ok = False
      continue
    for r in range(rows):
      if r < mask_arr.shape[0] and mask_arr[r]:
        i = int(ids[r]) - 1 - base
        if not (0 <= i < ref[k].shape[0]) or not np.array_equal(v[r], ref[k][i]):
          feat_ok = False
      else:
        zero = v.dtype.type() if v.dtype.kind in 'SU' else 0     # the zero of a string dtype is the empty string
        if v[r].size and np.any(v[r] != zero):
          padzero = False
  out_ids = [int(ids[r]) if (r < mask_arr.shape[0] and mask_arr[r]) else 0 for r in range(rows)]
  if mask is not None and mask_arr.dtype != np.bool_:
    feat_ok = False
  return out_ids, [bool(x) for x in mask_arr], bool(padzero), bool(feat_ok)
