"""C20 - packaged dataset preprocessors and models agree with each other.

Leg M: TLC on Packaged.tla: the Shakespeare tokeniser as a sequence function (all snippet lists of <= 3 snippets of
       length 0..3 over in-vocabulary / out-of-vocabulary bytes, sequence lengths 2..5), CIFAR-100 per-image
       standardisation in exact rational form (two- and three-valued images incl. constant and low-contrast ones), the
       EMNIST domain rule for all 10 000 writers.  Two deviations reported.
Leg R: the emitted tables are replayed into shakespeare.preprocess_client, cifar100.preprocess_image_tff (centre crop
       window verified with position-coded images) and emnist.domain_id (both id formats; malformed ids must raise).
Leg T: facts judged by TLC (PureHistory): the padding / begin / end / OOV ids and vocabulary size each packaged model
       assumes are those its dataset produces; CIFAR eval preprocessing equals TensorFlow's per_image_standardization of
       the centre crop for crop sizes 1..32; training crops are sub-windows; every packaged model scores a row the same
       whatever the other rows of the batch are.
"""
import numpy as np

from vf import intern
from vf import traces as vtraces
from vf.core import Machinery

INVS = ['UnpaddedInputsAreStream', 'TargetsAreInputsShifted', 'LabelsInVocab', 'PaddingOnlyAtEnd', 'RowsHaveSeqLen', 'UnitVarianceOrFloor',
        'ConstantImageIsZero', 'DomainRange']


def run(ctx):
  import jax  # pylint: disable=g-import-not-at-top
  import jax.numpy as jnp  # pylint: disable=g-import-not-at-top
  import fedjax  # pylint: disable=g-import-not-at-top
  from fedjax.datasets import cifar100 as dcifar  # pylint: disable=g-import-not-at-top
  from fedjax.datasets import emnist as demnist  # pylint: disable=g-import-not-at-top
  from fedjax.datasets import shakespeare as dshake  # pylint: disable=g-import-not-at-top
  from fedjax.datasets import stackoverflow as dso  # pylint: disable=g-import-not-at-top
  from fedjax.models import emnist as memnist  # pylint: disable=g-import-not-at-top
  from fedjax.models import shakespeare as mshake  # pylint: disable=g-import-not-at-top
  from fedjax.models import stackoverflow as mso  # pylint: disable=g-import-not-at-top
  big = ctx.thorough
  rng = ctx.rng
  nprng = np.random.RandomState(ctx.seed)
  ctx.rule = ('case = (snippet list, sequence length) / (image value-count pattern, crop size) / writer number / (model, example, batch '
              'composition); non-trivial = total label count not a multiple of the sequence length or an OOV byte; low-contrast or '
              'odd-crop image; writer near the 2100/2599 boundaries; batch with >= 2 rows; distinct by these tuples')
  ctx.assumptions += ['the packaged datasets cannot be downloaded here: preprocessors and model objects are exercised on synthetic inputs',
                      'row independence of the neural models is a relational (tolerance class) check; the numbers come from the networks']
  base = dict(MaxSnippets=3 if big else 2, MaxSnipLen=3 if big else 2, MaxSeqLen=5 if big else 4, StdFloorInverse=True, ShiftByOne=True)
  rt = ctx.model_check('Packaged', name='Packaged_tokenizer', constants=dict(base, Mode='tokenizer'), invariants=INVS + ['Emit'], workers=1, timeout=3000)
  rs = ctx.model_check('Packaged', name='Packaged_standardize', constants=dict(base, Mode='standardize'), invariants=INVS + ['Emit'], workers=1)
  rd = ctx.model_check('Packaged', name='Packaged_domain', constants=dict(base, Mode='domain'), invariants=INVS + ['Emit'], workers=1)
  ctx.model_check('Packaged', expect='UnitVarianceOrFloor', name='Packaged_ctl_StdFloorInverse', constants=dict(base, Mode='standardize', StdFloorInverse=False),
                  invariants=INVS, coverage=False)
  ctx.model_check('Packaged', expect=['TargetsAreInputsShifted', 'UnpaddedInputsAreStream'], name='Packaged_ctl_ShiftByOne',
                  constants=dict(base, Mode='tokenizer', ShiftByOne=False, MaxSnippets=2, MaxSnipLen=2), invariants=INVS, coverage=False)
  ctx.require_actions(['Tokenize', 'Standardize', 'Domain'])

  # ---- leg R: tokenizer
  n = 0
  vocab_bytes = [b for b in range(256) if int(dshake.TABLE[b]) != dshake.OOV]
  oov_bytes = [ord('~'), 0, 1, 2, 255, 128, 3, 127]     # out-of-vocabulary bytes, among them the values of the reserved labels
  for ci, c in enumerate(rt.json):
    # the abstract byte classes are realised by varying concrete bytes (two vocabulary characters, one OOV byte)
    va, vb = vocab_bytes[(ci * 7) % len(vocab_bytes)], vocab_bytes[(ci * 7 + 31) % len(vocab_bytes)]
    byte_of = {1: va, 2: vb, 3: oov_bytes[ci % len(oov_bytes)]}
    lab = {0: dshake.PAD, 1: dshake.BOS, 2: dshake.EOS, 3: int(dshake.TABLE[va]), 4: int(dshake.TABLE[vb]), 99: dshake.OOV}
    snippets = np.array([bytes(byte_of[b] for b in s) for s in c['snippets']], dtype=object)
    cfg = dict(snippets=[bytes(byte_of[b] for b in s) for s in c['snippets']], sequence_length=c['seqlen'])
    total = sum(len(s) + 2 for s in c['snippets'])
    ctx.case(key=('tok', repr(c['snippets']), c['seqlen']), nontrivial=(total - 1) % c['seqlen'] != 0 or any(3 in s for s in c['snippets']))
    n += 1
    try:
      out = dshake.preprocess_client(b'cid', {'snippets': snippets}, sequence_length=c['seqlen'])
    except Exception as ex:  # pylint: disable=broad-except
      ctx.violation(f'tokenizer:exception:{type(ex).__name__}', f'{type(ex).__name__}: {ex} for {cfg}', replay={'cfg': cfg})
      continue
    ex_x = np.array([[lab[v] for v in row] for row in c['x']], np.int32).reshape(-1, c['seqlen'])
    ex_y = np.array([[lab[v] for v in row] for row in c['y']], np.int32).reshape(-1, c['seqlen'])
    if out['x'].shape != ex_x.shape or not np.array_equal(out['x'], ex_x) or not np.array_equal(out['y'], ex_y):
      ctx.violation('tokenizer:labels', f'preprocess_client gives x={out["x"].tolist()} y={out["y"].tolist()}, the label stream is x={ex_x.tolist()} y={ex_y.tolist()} for {cfg}',
                    replay={'cfg': cfg})
  # every byte value on its own: in-vocabulary bytes get pairwise distinct labels above the reserved ones, all others OOV
  seen_labels = {}
  for b in range(256):
    out = dshake.preprocess_client(b'cid', {'snippets': np.array([bytes([b])], dtype=object)}, sequence_length=2)
    n += 1
    want = int(dshake.TABLE[b])
    okb = out['x'].tolist() == [[dshake.BOS, want]] and out['y'].tolist() == [[want, dshake.EOS]] and (want == dshake.OOV or (2 < want < dshake.OOV and want not in seen_labels))
    seen_labels.setdefault(want, b)
    if not okb:
      ctx.violation('tokenizer:byte-label', f'snippet bytes([{b}]) gives x={out["x"].tolist()} y={out["y"].tolist()}, expected [[BOS, {want}]] / [[{want}, EOS]]', replay={'byte': b})
  # ---- leg R: standardisation on the centre crop
  for c in rs.json:
    N = c['std'][0]['n']
    crop = int(round((N / 3) ** 0.5))
    if 3 * crop * crop != N:
      raise Machinery('image pattern does not fill a square RGB crop')
    pix = np.concatenate([np.full(k, v, np.uint8) for v, k in zip(c['vals'], c['counts'])])
    nprng.shuffle(pix)
    img = nprng.randint(0, 256, size=(1, 32, 32, 3)).astype(np.uint8)
    off = (32 - crop) // 2
    img[0, off:off + crop, off:off + crop, :] = pix.reshape(crop, crop, 3)
    out = dcifar.preprocess_image_tff(img, crop, crop, distort=False)
    n += 1
    cfg = dict(vals=c['vals'], counts=c['counts'], crop=crop)
    low = c['std'][0]['var'][0] * N < c['std'][0]['var'][1]
    ctx.case(key=('std', repr(cfg)), nontrivial=low or len(c['vals']) == 1)
    ok = out.shape == (1, crop, crop, 3) and np.all(np.isfinite(out))
    if ok:
      crop_px = img[0, off:off + crop, off:off + crop, :]
      for v, st in zip(c['vals'], c['std']):
        sel = out[0][crop_px == v].astype(np.float64)
        want = st['sign'] * (st['sq'][0] / st['sq'][1]) ** 0.5
        if not np.allclose(sel, want, rtol=2e-3, atol=1e-5):   # float32 mean of values near 128 limits the relative accuracy
          ok = False
          key = 'cifar-std-floor-sqrtN-instead-of-1-over-sqrtN' if low else 'standardize:value'
          ctx.violation(key, f'pixel value {v}: preprocess_image_tff gives {float(sel[0])}, per-image standardisation gives {want} '
                        f'(variance {st["var"][0]}/{st["var"][1]}, N={N}) for {cfg}', replay={'cfg': cfg})
          break
    elif not ok:
      ctx.violation('standardize:shape-or-nan', f'output shape {out.shape} / non-finite for {cfg}', replay={'cfg': cfg})
  # ---- leg R: EMNIST domain ids
  table = {c['writer']: c['dom'] for c in rd.json}
  bad = []
  # documented id formats: "f<4 digits>_<2 digits>" and "<16 hex digits>:f<4 digits>_<2 digits>"; the hash part is arbitrary
  # hex - including hashes that themselves contain an 'f' followed by four digits on the other side of a range boundary
  decoys = [b'0123456789abcdef', b'00f21000000000ab', b'10f6609cd89529e8', b'f2599f2600f20990', b'ffffffffffffffff', b'a0f0000f99990000']
  for w in range(10000):
    h16 = decoys[w % len(decoys)] if w % 3 else (b'%016x' % ((w * 2654435761 + ctx.seed) % 16**16))
    for cid in (b'f%04d_%02d' % (w, w % 100), h16 + b':f%04d_%02d' % (w, (w * 7) % 100)):
      try:
        got_dom = demnist.domain_id(cid)
      except Exception as ex:  # pylint: disable=broad-except
        got_dom = f'{type(ex).__name__}'
      if got_dom != table[w]:
        bad.append((w, cid, got_dom))
  n += 20000
  ctx.case(key='emnist-domain', nontrivial=True, n=20000)
  if bad:
    ctx.violation('emnist:domain_id', f'domain_id differs from the documented ranges for {len(bad)} ids, e.g. {bad[0]}', replay={'examples': [str(b) for b in bad[:5]]})
  for cid in (b'', b'f123', b'f12345_00x', b'x' * 24, b'x' * 26):
    try:
      demnist.domain_id(cid)
      ctx.violation('emnist:malformed-accepted', f'malformed client id {cid!r} is accepted', replay={'cid': repr(cid)})
    except ValueError:
      pass
  ctx.trace_ok(n)
  ctx.leg('R', tokenizer_cases=len(rt.json), standardize_cases=len(rs.json), emnist_ids=20000)
  ctx.sample({'tokenizer_case': rt.json[len(rt.json) // 2]})
  ctx.sample({'standardize_case': rs.json[0]})

  # ---- leg T: facts judged by TLC
  ev = []
  tol = intern.Tolerant(rtol=2e-4, atol=2e-5)

  def same(key, a, b):
    ev.append({'e': 'Call', 'key': key, 'out': tol(np.asarray(a, np.float64))})
    ev.append({'e': 'Call', 'key': key, 'out': tol(np.asarray(b, np.float64))})

  def ids_of(model, full):
    em = model.eval_metrics
    lm = em['accuracy_in_vocab'].logits_mask
    return {'masked logits': sorted(i for i, v in enumerate(lm) if v == -np.inf), 'pad (token count)': sorted(em['num_tokens'].masked_target_values),
            'pad+eos (accuracy_no_eos)': sorted(em['accuracy_no_eos'].masked_target_values), 'oov': sorted(em['token_oov_rate'].oov_target_values),
            'vocabulary size': len(lm)}

  # Shakespeare
  ms = mshake.create_lstm_model()
  got = ids_of(ms, None)
  want = {'masked logits': sorted([dshake.PAD, dshake.BOS, dshake.EOS, dshake.OOV]), 'pad (token count)': [dshake.PAD],
          'pad+eos (accuracy_no_eos)': sorted([dshake.PAD, dshake.EOS]), 'oov': [dshake.OOV], 'vocabulary size': dshake.VOCAB_SIZE}
  for k in want:
    same(f'shakespeare: {k} (dataset vs model)', want[k], got[k])
  # the registered tasks pair a dataset with a model: with the loaders stubbed (no network), the task's model must assume the
  # ids and sizes its dataset produces
  from fedjax.training import tasks as tasks_mod  # pylint: disable=g-import-not-at-top
  tiny = fedjax.InMemoryFederatedData({b'c': {'x': np.zeros((1, 2), np.int32), 'y': np.zeros((1, 2), np.int32)}})
  # (the StackOverflow task builds its tokenizer from a downloaded vocabulary: not reachable offline)
  saved = (tasks_mod.datasets.shakespeare.load_data, tasks_mod.datasets.stackoverflow.load_data)
  try:
    tasks_mod.datasets.shakespeare.load_data = lambda **kw: (tiny, tiny)
    tasks_mod.datasets.stackoverflow.load_data = lambda **kw: (tiny, tiny, tiny)
    got_t = ids_of(tasks_mod.get_task('SHAKESPEARE_CHARACTER')[2], None)
    for k in want:
      same(f'shakespeare: {k} (dataset vs model)', want[k], got_t[k])
  except Exception as ex_:  # pylint: disable=broad-except
    raise Machinery(f'registered tasks not exercised: {type(ex_).__name__}: {str(ex_)[:200]}')
  finally:
    tasks_mod.datasets.shakespeare.load_data, tasks_mod.datasets.stackoverflow.load_data = saved
  # StackOverflow with a small explicit vocabulary
  try:
    vocab = ['the', 'a', 'of', 'jax', 'fed']
    tok = dso.StackoverflowTokenizer(vocab=vocab, default_vocab_size=len(vocab), num_oov_buckets=1)
    mo = mso.create_lstm_model(vocab_size=len(vocab), embed_size=8, lstm_hidden_size=8, lstm_num_layers=1)
    ex = tok.as_preprocess_batch(max_length=6)({'tokens': np.array([b'the jax zzz of', b'a'], dtype=object)})
    x, y = np.asarray(ex['x']), np.asarray(ex['y'])
    got = ids_of(mo, None)
    oov_id = int(y[0][2])
    want = {'masked logits': sorted([int(tok.PAD), int(tok.BOS), int(tok.EOS), oov_id]), 'pad (token count)': [int(tok.PAD)],
            'pad+eos (accuracy_no_eos)': sorted([int(tok.PAD), int(tok.EOS)]), 'oov': [oov_id], 'vocabulary size': len(vocab) + 4}
    for k in want:
      same(f'stackoverflow: {k} (dataset vs model)', want[k], got[k])
    ev.append({'e': 'Fact', 'name': 'StackoverflowTokenStream', 'about': f'x={x.tolist()} y={y.tolist()}',
               'holds': bool(x[0][0] == tok.BOS and y[0][4] == tok.EOS and list(x[0][1:5]) == list(y[0][:4]) and y[1][1] == tok.EOS and np.all(y[1][2:] == tok.PAD))})
    so_ok = True
  except Exception as ex_:  # pylint: disable=broad-except
    # (never skipped silently: a part of the property that cannot be exercised is a machinery failure)
    raise Machinery(f'stackoverflow tokenizer / model not exercised: {type(ex_).__name__}: {str(ex_)[:200]}')
  # CIFAR eval preprocessing vs TensorFlow, all crop sizes; training crops are sub-windows
  import tensorflow as tf  # pylint: disable=g-import-not-at-top
  kinds = {'random': lambda: nprng.randint(0, 256, size=(32, 32, 3)), 'low_contrast': lambda: 120 + nprng.randint(0, 3, size=(32, 32, 3)),
           'constant': lambda: np.full((32, 32, 3), 77), 'position_coded': lambda: (np.arange(32 * 32 * 3).reshape(32, 32, 3) * 7) % 251}
  for kind, mk in kinds.items():
    img = mk().astype(np.uint8)
    for crop in (range(1, 33) if big else [1, 2, 3, 5, 8, 15, 16, 23, 24, 31, 32]):
      ours = dcifar.preprocess_image_tff(img[None], crop, crop, distort=False)[0]
      ref = tf.image.per_image_standardization(tf.image.resize_with_crop_or_pad(tf.constant(img), crop, crop)).numpy()
      same(f'cifar eval preprocessing of a {kind} image, crop {crop} (fedjax vs TensorFlow)', ours, ref)
      ctx.case(key=('cifar-tf', kind, crop), nontrivial=kind != 'random' or crop % 2 == 1)
    # non-square crops, through the image function and through the batch wrapper (positional and keyword arguments)
    for ch_, cw_ in ((28, 20), (20, 28), (31, 3), (1, 32), (24, 24)):
      ref = tf.image.per_image_standardization(tf.image.resize_with_crop_or_pad(tf.constant(img), ch_, cw_)).numpy()
      same(f'cifar eval preprocessing of a {kind} image, crop {ch_}x{cw_} (fedjax vs TensorFlow)', dcifar.preprocess_image_tff(img[None], ch_, cw_, distort=False)[0], ref)
      ex_b = {'x': img[None], 'y': np.array([3], np.int32)}
      same(f'cifar eval preprocessing of a {kind} image, crop {ch_}x{cw_} (fedjax vs TensorFlow)', np.asarray(dcifar.preprocess_batch_tff(dict(ex_b), ch_, cw_)['x'][0]), ref)
      same(f'cifar eval preprocessing of a {kind} image, crop {ch_}x{cw_} (fedjax vs TensorFlow)',
           np.asarray(dcifar.preprocess_batch_tff(dict(ex_b), crop_width=cw_, crop_height=ch_)['x'][0]), ref)
  img = ((np.arange(32 * 32 * 3).reshape(32, 32, 3) * 7) % 251).astype(np.uint8)
  crops = [(c_, c_) for c_ in ([1, 5, 16, 24, 31, 32] if big else [5, 24, 32])] + [(28, 20), (20, 28), (31, 3)] + ([(8, 30), (32, 16), (1, 32)] if big else [])
  for crop_h, crop_w in crops:
    crop = (crop_h, crop_w)
    for rep in range(4 if crop_h == crop_w else 8):
      np.random.seed(ctx.seed * 100 + crop_h * 7 + crop_w * 3 + rep)
      out = dcifar.preprocess_image_tff(img[None], crop_h, crop_w, distort=True)[0]
      found = False
      if out.shape == (crop_h, crop_w, 3):
        for i in range(33 - crop_h):
          for j in range(33 - crop_w):
            w = img[i:i + crop_h, j:j + crop_w, :].astype(np.float64)
            for cand in (w, w[:, ::-1, :]):
              s = max(cand.std(), 1 / np.sqrt(cand.size))
              if np.allclose((cand - cand.mean()) / s, out, rtol=1e-4, atol=1e-4):
                found = True
                break
            if found:
              break
          if found:
            break
      ev.append({'e': 'Fact', 'name': 'TrainingCropIsSubWindow', 'about': f'crop {crop} rep {rep} shape {out.shape}', 'holds': bool(found)})
  # row independence of packaged models
  def row_independence(name, model, make_rows, nrows=4):
    params = model.init(jax.random.PRNGKey(1))
    rows = make_rows(nrows)
    single = []
    for i in range(nrows):
      b = {k: v[i:i + 1] for k, v in rows.items()}
      pred = model.apply_for_eval(params, b)
      loss = model.train_loss(b, model.apply_for_eval(params, b))
      single.append((np.asarray(pred)[0], np.asarray(loss)[0]))
    comps = [[0, 1], [1, 0, 2], [3, 2, 1, 0], [2, 2], [0, 3]]
    for comp in comps:
      b = {k: v[comp] for k, v in rows.items()}
      pred = np.asarray(model.apply_for_eval(params, b))
      loss = np.asarray(model.train_loss(b, model.apply_for_eval(params, b)))
      for pos, i in enumerate(comp):
        same(f'{name}: prediction of example {i} (alone vs in batch {comp})', single[i][0], pred[pos])
        same(f'{name}: training loss of example {i} (alone vs in batch {comp})', single[i][1], loss[pos])
      ctx.case(key=('rows', name, tuple(comp)), nontrivial=True)

  def pad_independence(name, model, make_rows, nrows=4):
    """PAD is the id the dataset pads with: padding a batch further (more PAD columns) changes no row's training loss."""
    params = model.init(jax.random.PRNGKey(2))
    rows = make_rows(nrows)
    base = np.asarray(model.train_loss(rows, model.apply_for_eval(params, rows)))
    for extra in (1, 3):
      wider = {k: np.pad(v, ((0, 0), (0, extra))) for k, v in rows.items()}
      loss = np.asarray(model.train_loss(wider, model.apply_for_eval(params, wider)))
      for i in range(nrows):
        same(f'{name}: training loss of row {i} (padded to length L vs L+{extra})', base[i], loss[i])
      ctx.case(key=('pad-length', name, extra), nontrivial=True)

  def emnist_rows(k):
    return {'x': nprng.rand(k, 28, 28, 1).astype(np.float32), 'y': nprng.randint(0, 10, size=(k,)).astype(np.int32)}

  def seq_rows(vocab_hi, L):
    def f(k):
      x = nprng.randint(3, vocab_hi, size=(k, L)).astype(np.int32)
      y = nprng.randint(3, vocab_hi, size=(k, L)).astype(np.int32)
      lens = [L, 2, 3, 1][:k]            # short (padded) sequences next to a full one
      for i, ln in enumerate(lens):
        x[i, ln:] = 0
        y[i, ln:] = 0
      return {'x': x, 'y': y}
    return f

  row_independence('emnist conv', memnist.create_conv_model(only_digits=True), emnist_rows)
  row_independence('emnist dense', memnist.create_dense_model(only_digits=True), emnist_rows)
  row_independence('shakespeare lstm', mshake.create_lstm_model(embed_size=8, lstm_hidden_size=16, lstm_num_layers=2), seq_rows(80, 6))
  if so_ok:
    row_independence('stackoverflow lstm', mso.create_lstm_model(vocab_size=20, embed_size=8, lstm_hidden_size=8, lstm_num_layers=1), seq_rows(20, 6))
    row_independence('stackoverflow lstm (shared embeddings)', mso.create_lstm_model(vocab_size=20, embed_size=8, lstm_hidden_size=8, lstm_num_layers=2,
                                                                                     share_input_output_embeddings=True), seq_rows(20, 6))
    row_independence('stackoverflow lstm (expected length)', mso.create_lstm_model(vocab_size=20, embed_size=8, lstm_hidden_size=8, lstm_num_layers=1,
                                                                                   expected_length=3.0), seq_rows(20, 5))
  # (StackOverflow only: its loss is a SUM over real tokens; the Shakespeare loss is by definition the mean over the fixed
  # sequence length its dataset produces, padding included)
  if so_ok:
    pad_independence('stackoverflow lstm', mso.create_lstm_model(vocab_size=20, embed_size=8, lstm_hidden_size=8, lstm_num_layers=1), seq_rows(20, 6))
    pad_independence('stackoverflow lstm (expected length)', mso.create_lstm_model(vocab_size=20, embed_size=8, lstm_hidden_size=8, lstm_num_layers=1,
                                                                                   expected_length=3.0), seq_rows(20, 5))
    pad_independence('stackoverflow lstm (shared embeddings, expected length)',
                     mso.create_lstm_model(vocab_size=20, embed_size=8, lstm_hidden_size=8, lstm_num_layers=2, share_input_output_embeddings=True, expected_length=13.3), seq_rows(20, 6))
  vs, _ = vtraces.validate_batch(ctx, 'PureHistory', [{'events': ev}], {}, 'PH')
  v = vs[0]
  if not v.ok:
    st = v.state or ''
    if 'shakespeare' in st and ('masked logits' in st or 'pad+eos' in st or 'oov' in st):
      key = 'shakespeare-model-bos-eos-ids-differ-from-dataset'
    elif 'cifar eval preprocessing' in st and ('low_contrast' in st or 'constant' in st or 'random' in st or 'position' in st):
      key = 'cifar-std-floor-sqrtN-instead-of-1-over-sqrtN'
    else:
      key = f'facts:{v.inv or "rejected"}:{st[:90]}'
    ctx.violation(key, f'{v.inv} at event #{v.at} {v.event}; recorded {st[:300]}', replay={'events': ev[max(0, (v.at or 1) - 4):(v.at or 1) + 1]})
  ctx.leg('T', facts=len(ev))
