"""C19 - downloaded and decompressed cache files appear only when complete.

Leg M: TLC on spec/Cache.tla (kills, torn writes and I/O errors at every step, stale .partial, liveness).
Leg T: the real maybe_download + maybe_lzma_decompress under the fault interposer and a fake network; the graph
       of cache-directory states reachable by faults is explored breadth-first; every call sequence is one trace
       validated by TLC against CacheTrace with the real directory bound after every effect.
"""
import collections
import hashlib
import lzma
import os
import shutil

from vf import faults
from vf import traces as vtraces
from vf.core import Machinery

open_real = open
INVS = ['FinalCompleteOrAbsent', 'ReturnsComplete']


def leg_m(ctx):
  grid = []
  totals = (0, 1, 2, 3, 4, 5) if ctx.thorough else (0, 1, 2, 4, 5)
  for total in totals:
    for dtotal in ((0, 2, 3, 5) if ctx.thorough else (0, 3)):
      grid.append((total, dtotal))
  n = 0
  for total, dtotal in grid:
    for stale in (False, True):
      consts = dict(Total=total, DTotal=dtotal, Block=2, MaxFaults=4 if ctx.thorough else 3, AtomicDownload=True,
                    AtomicDecomp=True, StalePartial=stale)
      ctx.model_check('Cache', name=f'Cache_M_{total}_{dtotal}_{int(stale)}', constants=consts, spec='Spec',
                      invariants=INVS, properties=['ReuseWithoutNetwork', 'CompleteIsStable', 'EventuallyRepaired'])
      n += 1
  for tog in ('AtomicDownload', 'AtomicDecomp'):
    consts = dict(Total=4, DTotal=3, Block=2, MaxFaults=2, AtomicDownload=True, AtomicDecomp=True, StalePartial=False)
    consts[tog] = False
    ctx.model_check('Cache', expect='FinalCompleteOrAbsent', name=f'Cache_ctl_{tog}', constants=consts, spec='Spec',
                    invariants=INVS, coverage=False)
  ctx.leg('M', configurations=n, controls=2)
  ctx.require_actions(['DlCheck', 'DlOpen', 'DlGet', 'DlWrite', 'DlClose', 'DlRename', 'DlReturn', 'DcCheck',
                       'DcOpen', 'DcCopy', 'DcClose', 'DcRename', 'DcReturn', 'Fault', 'Torn', 'Recall'])


class FakeRaw:

  def __init__(self, data, fail_at_block, log):
    self.data, self.pos, self.fail_at, self.reads, self.log = data, 0, fail_at_block, 0, log

  def read(self, n):
    if self.fail_at is not None and self.reads == self.fail_at:
      raise ConnectionError('injected network failure')
    self.reads += 1
    out = self.data[self.pos:self.pos + n]
    self.pos += len(out)
    return out


class FakeResponse:

  def __init__(self, data, fail_at_block, log):
    self.headers = {'content-length': str(len(data))}
    self.raw = FakeRaw(data, fail_at_block, log)

  def raise_for_status(self):
    pass

  def iter_content(self, chunk_size=1):
    while True:
      b = self.raw.read(chunk_size)
      if not b:
        return
      yield b

  @property
  def content(self):
    return self.raw.read(len(self.raw.data))

  def close(self):
    pass

  def __enter__(self):
    return self

  def __exit__(self, *a):
    return False


class Harness:

  def __init__(self, root, plain, raw_payload=None):
    from fedjax.datasets import downloads  # pylint: disable=g-import-not-at-top
    self.dl = downloads
    downloads.log = lambda *a, **k: None
    self.root = root
    self.plain = plain
    # raw_payload: serve these bytes as the download (not valid lzma): exercises exact payload sizes of the transfer
    self.download_only = raw_payload is not None
    self.comp = raw_payload if raw_payload is not None else lzma.compress(plain)
    self.fname = 'payload.bin.lzma'
    self.url = 'https://example.invalid/some/dir/' + self.fname
    self.log = None

  def name_of(self, path):
    b = os.path.basename(path)
    if b == self.fname:
      return 'final'
    if b == self.fname + '.partial':
      return 'partial'
    if b == self.fname[:-5]:
      return 'decomp'
    return 'other:' + b

  def expected(self, name):
    if name in ('final', 'partial'):
      return self.comp
    return self.plain

  def snapshot(self):
    out = []
    for b in sorted(os.listdir(self.root)):
      p = os.path.join(self.root, b)
      if not os.path.isfile(p):
        continue
      with open_real(p, 'rb') as f:
        data = f.read()
      n = self.name_of(p)
      out.append([n, {'exists': True, 'size': len(data), 'good': self.expected(n)[:len(data)] == data}])
    return out

  def dir_bytes(self):
    d = {}
    for b in sorted(os.listdir(self.root)):
      p = os.path.join(self.root, b)
      if os.path.isfile(p):
        with open_real(p, 'rb') as f:
          d[b] = f.read()
    return d

  def restore(self, d):
    shutil.rmtree(self.root, ignore_errors=True)
    os.makedirs(self.root)
    for b, data in d.items():
      with open_real(os.path.join(self.root, b), 'wb') as f:
        f.write(data)

  def call(self, crash_at=None, partial=None, fault='crash', net_fail=None, crash_pred=None, get_fault=None):
    self.log = []
    h = self
    calls = []

    def fake_get(url, *a, **kw):
      if net_fail == -1 or get_fault == 'conn':
        raise ConnectionError('injected connection failure')
      if get_fault == 'kill':
        ip.crashing = True
        raise faults.SimCrash()
      h.log.append({'e': 'NetGet'})
      calls.append(url)
      r = FakeResponse(h.comp, net_fail, h.log)
      if get_fault == 'http':
        def bad_status():
          raise h.dl.requests.HTTPError('503 injected')
        r.raise_for_status = bad_status
      if get_fault == 'nolength':
        del r.headers['content-length']      # a server / proxy that does not announce the size (chunked transfer)
      return r

    ip = faults.Interposer(self.root, self.snapshot, self.log, crash_at=crash_at, partial=partial, fault=fault,
                           use_tf=False, name_of=self.name_of, crash_pred=crash_pred)
    real_get = self.dl.requests.get
    self.dl.requests.get = fake_get
    outcome = 'return'
    try:
      with ip:
        try:
          p = self.dl.maybe_download(self.url, self.root, progress_=range)
          self.log.append({'e': 'Return', 'which': self.name_of(p)})
          if not self.download_only:
            q = self.dl.maybe_lzma_decompress(p)
            self.log.append({'e': 'Return', 'which': self.name_of(q)})
        except faults.SimCrash:
          self.log.append({'e': 'Crash'})
          outcome = 'crash'
        except Exception as ex:  # pylint: disable=broad-except
          self.log.append({'e': 'Fail', 'exc': f'{type(ex).__name__}: {ex}'[:160]})
          outcome = 'fail'
    finally:
      self.dl.requests.get = real_get
    return self.log, ip.n_effects, ip.effect_kinds, outcome, len(calls)


def dir_key(d):
  h = hashlib.sha1()
  for b in sorted(d):
    h.update(b.encode() + b'\0' + hashlib.sha1(d[b]).digest())
  return h.hexdigest()


def mk_trace(h, init_snap, events, meta):
  names = []
  for n, _ in init_snap:
    if n not in names:
      names.append(n)
  for ev in events:
    for key in ('name', 'src', 'dst'):
      if key in ev and ev[key] not in names:
        names.append(ev[key])
    for n, _ in ev.get('dir', []):
      if n not in names:
        names.append(n)
  fin = [f for n, f in init_snap if n == 'final']
  init_complete = bool(fin) and fin[0]['size'] == len(h.comp) and fin[0]['good']
  return {'meta': meta, 'names': names, 'init': init_snap, 'init_final_complete': init_complete,
          'events': [dict(e) for e in events]}


def explore(ctx, plain, max_depth, tag, stale, raw_payload=None):
  root = os.path.join(ctx.scratch, 'cache_' + tag)
  shutil.rmtree(root, ignore_errors=True)
  os.makedirs(root)
  h = Harness(root, plain, raw_payload)
  init = {}
  if stale is not None:
    init[h.fname + '.partial'] = h.comp[:stale]
  frontier = [(init, 0)]
  seen = {dir_key(init)}
  traces = []
  sites = collections.Counter()
  nblocks = (len(h.comp) + (1 << 18) - 1) >> 18
  while frontier:
    nxt = []
    for d0, depth in frontier:
      h.restore(d0)
      snap0 = h.snapshot()
      ev, n_eff, kinds, outcome, _ = h.call()
      traces.append(mk_trace(h, snap0, ev, {'depth': depth, 'fault': None}))
      if outcome == 'return':
        d1 = h.dir_bytes()
        if dir_key(d1) not in seen and depth < max_depth:
          seen.add(dir_key(d1))
          nxt.append((d1, depth + 1))
      if depth >= max_depth:
        continue
      plans = []
      for i in range(n_eff):
        plans.append(dict(crash_at=i, fault='crash'))
        plans.append(dict(crash_at=i, fault='ioerror'))
        if kinds[i] == 'Write':
          plans.append(dict(crash_at=i, fault='crash', partial=0.5))
          plans.append(dict(crash_at=i, fault='crash', partial='last'))
      for b in range(-1, nblocks + 1):     # -1: the connection itself fails
        plans.append(dict(net_fail=b))
      plans.append(dict(get_fault='nolength'))
      for plan in plans:
        h.restore(d0)
        ev2, _, _, out2, _ = h.call(**plan)
        if 'net_fail' in plan and out2 == 'return':
          continue  # the network was not used (cached) or the failing block was never requested
        if out2 == 'return' and plan.get('fault') == 'crash':
          raise Machinery(f'crash point {plan} not reached on replay from the same directory')
        sites[(plan.get('fault') or 'net') + ('+partial' if plan.get('partial') else '')] += 1
        traces.append(mk_trace(h, snap0, ev2, {'depth': depth, 'fault': plan}))
        d1 = h.dir_bytes()
        if dir_key(d1) not in seen:
          seen.add(dir_key(d1))
          nxt.append((d1, depth + 1))
    frontier = nxt
  shutil.rmtree(root, ignore_errors=True)
  return h, traces, len(seen), sites


def payloads(ctx):
  rnd = ctx.rng
  blk = 1 << 18

  def incompressible(n):
    return bytes(rnd.getrandbits(8) for _ in range(n))

  # compressed size is what the download loop sees; incompressible data keeps compressed ~ plain size
  out = [('empty', b''), ('tiny', b'x'), ('one_block_minus', incompressible(blk - 200)),
         ('several_blocks', incompressible(2 * blk + 5)), ('raw_exactly_one_block', incompressible(blk)), ('raw_exactly_two_blocks', incompressible(2 * blk)),
         ('raw_zero_bytes', b'')]
  if ctx.thorough:
    out += [('text', b'federated ' * 30000), ('about_one_block', incompressible(blk - 60)),
            ('three_blocks', incompressible(3 * blk + 17))]
  return out


def leg_t(ctx):
  depth = 3 if ctx.thorough else 2
  total = 0
  fault_pcs = set()
  for pi, (tag, plain) in enumerate(payloads(ctx)):
    stale = None if pi % 2 == 0 else 1
    raw = plain if tag.startswith('raw_') else None
    h, traces, nodes, sites = explore(ctx, plain, depth, tag, stale, raw_payload=raw)
    consts = dict(Total=len(h.comp), DTotal=len(plain), Block=1 << 18, MaxFaults=1, AtomicDownload=True,
                  AtomicDecomp=True, StalePartial=False)
    verdicts, rr = vtraces.validate_batch(ctx, 'CacheTrace', traces, consts, tag, invariants=['FaultPcs'])
    fault_pcs |= {j['faultpc'] for j in rr.json if 'faultpc' in j}
    for t, v in zip(traces, verdicts):
      sig = (tag, tuple(e['e'] for e in t['events']))
      ctx.case(key=hash(sig), nontrivial=t['meta']['fault'] is not None or t['meta']['depth'] > 0)
      if v.ok:
        continue
      if v.kind == 'violated':
        ctx.violation(f'{v.inv}@{v.event["e"]}:{v.event.get("name", "")}',
                      f'real trace violates {v.inv} after event #{v.at} {vtraces.short(v.event)}; payload={tag} '
                      f'({len(plain)} bytes, compressed {len(h.comp)}), fault={t["meta"]}',
                      replay={'payload': tag, 'trace': t, 'violated': v.inv, 'position': v.at})
      else:
        ctx.violation(f'rejected@{v.event["e"]}:{v.event.get("name", "")}',
                      f'real trace is not a behaviour of Cache: event #{v.at} {vtraces.short(v.event)} matches no '
                      f'action in spec state {v.state}; payload={tag}, fault={t["meta"]}',
                      replay={'payload': tag, 'trace': t, 'position': v.at, 'spec_state': v.state})
    total += len(traces)
    ctx.leg('T', traces=len(traces), directory_states=nodes, **{'faults_' + k: v for k, v in sites.items()})
    if pi == 3 and traces:
      t = traces[min(len(traces) - 1, 9)]
      ctx.sample({'payload': tag, 'compressed_bytes': len(h.comp), 'fault': t['meta'],
                  'events': [vtraces.short(e) for e in t['events']][:30]})
  ctx.leg('T', spec_fault_points_hit=sorted(fault_pcs))
  want = {'dl_open', 'dl_get', 'dl_write', 'dl_rename', 'dc_open', 'dc_copy', 'dc_rename', 'raising'}
  # a code change that reorders the effects shifts where faults land; that shows up as rejected traces above, so the
  # coverage demand is a machinery condition only when nothing else was reported
  if want - fault_pcs and not ctx.violations:
    raise Machinery(f'fault-point coverage: injected faults never hit the specification control states {sorted(want - fault_pcs)}')
  return total


U_DL = 1 << 17    # one abstract unit of the downloaded file: half a transfer block of the real code
U_DC = 1 << 15    # one abstract unit of the decompressed file: half a shutil.copyfileobj buffer
SPEC2REAL = {'final': 'final', 'partial': 'partial', 'decomp': 'decomp', 'dtmp': 'other:payload.bin.partial'}


def gen_payload(rnd, total, dtotal):
  """A download of exactly `total` units that decompresses to exactly `dtotal` units (trailing non-xz bytes are ignored by lzma)."""
  plain = bytes(rnd.getrandbits(8) for _ in range(dtotal * U_DC))
  comp = lzma.compress(plain)
  if len(comp) > total * U_DL:
    return None
  return plain, comp + b'\xff' * (total * U_DL - len(comp))


def realise(h, rnd, point):
  """Makes one call of the real code fail at the NAMED fault point of the specification. Returns (outcome, n_get) or None."""
  at, kind, size = point['at'], point['kind'], point['size']
  if at == 'none':
    return ('unobservable', 0)
  blocks_done = size // 2
  download = at.startswith('dl_')
  total = (len(h.comp) // U_DL) if download else (len(h.plain) // U_DC)
  state = {'writes': 0, 'phase': None}
  kw = {}
  mode = 'crash'

  def phase_of(name):
    return 'dl' if name in ('final', 'partial') else 'dc'

  want_phase = 'dl' if download else 'dc'
  how = None
  if kind == 'Exception':
    mode = 'ioerror'
    if at == 'dl_get':
      kw['get_fault'] = 'conn'
      how = 'get'
    elif at == 'dl_write' and size < total:
      how = rnd.choice(['net', 'write'] + (['http', 'nolength'] if size == 0 else []))
      if how == 'net':
        kw['net_fail'] = blocks_done
      elif how in ('http', 'nolength'):
        kw['get_fault'] = how
    else:
      how = 'write' if size < total else 'close'
  elif kind == 'Torn':
    how = 'torn'
  else:
    if at == 'dl_get':
      kw['get_fault'] = 'kill'
      how = 'get'
    elif at in ('dl_open', 'dc_open'):
      how = 'open'
      mode = rnd.choice(['crash', 'ioerror'])
    elif at in ('dl_rename', 'dc_rename'):
      how = 'rename'
      mode = rnd.choice(['crash', 'ioerror'])
    elif at in ('dl_write', 'dc_copy'):
      how = 'write' if size < total else 'close'
    else:
      return None

  def pred(k, f):
    name = f.get('name', f.get('src'))
    ph = phase_of(name)
    if k == 'Open':
      state['writes'] = 0
      return how == 'open' and ph == want_phase
    if k == 'Write':
      hit = ph == want_phase and state['writes'] == blocks_done
      state['writes'] += 1
      if hit and how == 'torn':
        return ('partial', point['torn'] / 2.0)
      return hit and how == 'write'
    if k == 'Close':
      return how == 'close' and ph == want_phase
    if k == 'Rename':
      return how == 'rename' and ph == want_phase
    return False

  ev, _, _, outcome, n_get = h.call(fault=mode, crash_pred=pred, **kw)
  return (outcome, n_get, how, mode, ev)


def dir_matches(h, snap, want):
  """Real directory snapshot vs. the directory the specification expects (sizes in units)."""
  got = {n: f for n, f in snap}
  exp = {}
  for n, f in asdict(want).items():
    unit = U_DL if n in ('final', 'partial') else U_DC
    exp[SPEC2REAL[n]] = {'exists': True, 'size': f['size'] * unit, 'good': f['good']}
  if set(got) != set(exp):
    return f'files {sorted(got)} but the specification expects {sorted(exp)}'
  for n in exp:
    if got[n]['size'] != exp[n]['size'] or (got[n]['good'] != exp[n]['good'] and exp[n]['size'] > 0):
      return f'{n}: real {got[n]} but the specification expects {exp[n]}'
  return None


def leg_r(ctx):
  """Leg R: fault schedules generated by TLC from Cache (named fault points) are realised on the real code."""
  if shutil.COPY_BUFSIZE != 2 * U_DC:
    ctx.leg('R', skipped=f'shutil.COPY_BUFSIZE={shutil.COPY_BUFSIZE}')
    return
  cfgs = [(1, 1, False), (3, 3, False), (4, 0, True), (2, 3, True)]
  if ctx.thorough:
    cfgs += [(4, 4, False), (3, 1, True), (5, 3, False), (1, 0, True)]
  total_n, unreal = 0, 0
  how_count = collections.Counter()
  for total, dtotal, stale in cfgs:
    pl = gen_payload(ctx.rng, total, dtotal)
    if pl is None:
      continue
    plain, comp = pl
    consts = dict(Total=total, DTotal=dtotal, Block=2, MaxFaults=3 if ctx.thorough else 2, AtomicDownload=True, AtomicDecomp=True,
                  StalePartial=stale)
    r = ctx.tlc('CacheGen', name=f'CacheGen_{total}_{dtotal}_{int(stale)}', constants=consts, init='GInit', next_='GNext',
                invariants=['EmitSchedule'], workers=1, coverage=False)
    scheds = r.json
    ctx.rng.shuffle(scheds)
    if not ctx.thorough:
      scheds = scheds[:300]
    root = os.path.join(ctx.scratch, f'gen_{total}_{dtotal}')
    os.makedirs(root, exist_ok=True)
    h = Harness(root, plain)
    h.comp = comp
    for s in scheds:
      init = {}
      for n, f in asdict(s['sched'][0]['dir']).items():
        if n != 'partial':
          raise Machinery(f'CacheGen initial directory has {n}')
        init[h.fname + '.partial'] = comp[:f['size'] * U_DL]
      h.restore(init)
      problem, n_get, skipped = None, 0, False
      for ci, point in enumerate(s['sched'][1:]):
        if point['kind'] == 'Recall':
          _, _, _, outcome, g = h.call()
          n_get += g
          if outcome != 'return':
            problem = ('completion', f'the call before the repeated call #{ci + 1} ended with {outcome}')
            break
        else:
          res = realise(h, ctx.rng, point)
          if res is None:
            skipped = True
            break
          if res[0] == 'unobservable':
            continue
          outcome, g, how, mode = res[:4]
          n_get += g
          want_outcome = 'crash' if mode == 'crash' and how != 'net' else 'fail'
          if how in ('get',) and point['kind'] == 'Kill':
            want_outcome = 'crash'
          if how in ('net', 'http', 'nolength', 'get') and point['kind'] == 'Exception':
            want_outcome = 'fail'
          if outcome == 'return':
            skipped = True   # the named point was never reached by the real code
            break
          if outcome != want_outcome:
            problem = ('fault-outcome', f'fault #{ci + 1} at spec point {brief(point)} ({how}/{mode}) ended with {outcome}, expected {want_outcome}')
            break
          how_count[f"{point['at']}:{point['kind']}:{how}"] += 1
        bad = dir_matches(h, h.snapshot(), point['dir'])
        if bad:
          problem = ('directory-after-fault', f'after fault #{ci + 1} at spec point {brief(point)}: {bad}')
          break
        if n_get != point['net']:
          problem = ('network-requests', f'after fault #{ci + 1} at spec point {brief(point)}: {n_get} requests so far, the specification expects {point["net"]}')
          break
      if skipped:
        unreal += 1
        continue
      if problem is None:
        ev, _, _, outcome, g = h.call()
        n_get += g
        rets = [e['which'] for e in ev if e['e'] == 'Return']
        bad = dir_matches(h, h.snapshot(), s['dir'])
        if outcome != 'return' or rets != ['final', 'decomp']:
          problem = ('final-call', f'the final call ended with {outcome}, returned {rets}')
        elif bad:
          problem = ('final-directory', bad)
        elif n_get != s['net']:
          problem = ('network-requests', f'{n_get} requests over the whole history, the specification expects {s["net"]}')
      total_n += 1
      ctx.case(key=('R', total, dtotal, stale, repr([brief(p) for p in s['sched'][1:]])), nontrivial=len(s['sched']) >= 2)
      if problem:
        ctx.violation(f'replay:{problem[0]}', f'{problem[1]}; Total={total} DTotal={dtotal} units, stale={stale}, schedule={[brief(p) for p in s["sched"][1:]]}',
                      replay={'cfg': [total, dtotal, stale], 'schedule': s})
    shutil.rmtree(root, ignore_errors=True)
  ctx.trace_ok(total_n)
  ctx.leg('R', schedules_realised=total_n, schedules_not_realisable=unreal, fault_points=dict(how_count))
  if total_n == 0 or (unreal > total_n and not ctx.violations):
    raise Machinery(f'leg R: only {total_n} schedules realised, {unreal} not realisable')


def asdict(x):
  return x if isinstance(x, dict) else {}    # ToJson prints a function with an empty domain as []


def brief(p):
  return {k: p[k] for k in ('kind', 'pc', 'at', 'wname', 'size', 'torn') if k in p}


def binding_control(ctx):
  h, traces, _, _ = explore(ctx, b'abc' * 1000, 0, 'ctl', None)
  import json  # pylint: disable=g-import-not-at-top
  t = json.loads(json.dumps(traces[0]))
  for ev in t['events']:
    if ev['e'] == 'Rename':
      for n, f in ev['dir']:
        if n == 'final':
          f['size'] -= 1
      break
  sub = type(ctx)(ctx.pid + '_ctl', ctx.tier, ctx.seed)
  consts = dict(Total=len(h.comp), DTotal=3000, Block=1 << 18, MaxFaults=1, AtomicDownload=True, AtomicDecomp=True,
                StalePartial=False)
  verdicts, _ = vtraces.validate_batch(sub, 'CacheTrace', [t], consts, 'ctl')
  ok = not verdicts[0].ok
  ctx.controls.append({'run': 'binding: size of final after Rename corrupted in an accepted trace',
                       'expected_violation': 'rejected@Rename', 'got': repr(verdicts[0]), 'ok': ok})
  shutil.rmtree(sub.scratch, ignore_errors=True)
  if not ok:
    raise Machinery('binding control: corrupted trace was accepted')


def run(ctx):
  ctx.rule = ('leg M: TLC on Cache.tla per (payload size, decompressed size, stale .partial) with kills, torn writes and '
              'I/O errors everywhere; leg T: one case = one real call sequence maybe_download;maybe_lzma_decompress '
              'from a reachable cache directory under one injected fault (kill before effect i, kill mid-write, '
              'OSError at effect i, network failure at block b), validated by TLC; non-trivial = faulted or started '
              'from a post-fault directory; distinct by (payload, event-kind sequence)')
  ctx.assumptions += [
      'faults are simulated in-process at the effect boundary; data handed to write() before the fault is on disk',
      'the network is a harness-supplied fake requests.get (streaming raw.read, content-length header)',
      'cifar100.load_split builds its converted SQLite file in place too; that step is outside C19 as worded and '
      'is not asserted',
  ]
  only = os.environ.get('C19_LEGS', 'MTR')
  if 'M' in only:
    leg_m(ctx)
  if 'T' in only:
    leg_t(ctx)
    binding_control(ctx)
  if 'R' in only:
    leg_r(ctx)
