"""C02 - all for-each-client backends equal the sequential per-client fold.

Leg M: TLC on ForEachClient.tla (pmap blockify/mask/yield machine and the jit donate machine with a buffer table, free
       client program) for every device count, and on BackendChoice.tla (all interleavings of two threads' programs);
       deviations as sensitivity controls.
Leg R: every batch-count profile TLC enumerates is executed on the real jit, debug and pmap backends (1, 2, 3, 4, 8
       forced host devices, one subprocess per device count) with the free program realised in JAX (state carries the
       consumed token sequence; a step on an all-zero padding batch poisons a float accumulator), with and without
       step results; outputs compared per client id with the specification, caller inputs checked alive and unchanged.
       Every emitted thread schedule is replayed on real threads stepped by a baton.
Leg T: larger random collections and listing orders validated by TLC (ForEachClientTrace); free-running threads
       validated per thread (BackendChoiceTrace).
"""
import concurrent.futures as cf
import json
import os
import subprocess
import sys
import threading

from vf import traces as vtraces
from vf.core import Machinery
from vf.tlc import Raw, tla_value

HERE = os.path.dirname(os.path.abspath(__file__))
INVS = ['ExactlyOnce', 'EqualsFold', 'NoPadObservable', 'CallerBuffersAlive']
TOG = dict(MaskStep=True, DropPadding=True, Truncate=True, CopyInit=True)


def worker(job):
  p = subprocess.run([sys.executable, os.path.join(HERE, 'c02_worker.py')], input=json.dumps(job), capture_output=True, text=True, timeout=3000)
  if p.returncode != 0:
    raise Machinery('c02 worker failed: ' + p.stderr[-600:])
  return json.loads(p.stdout[p.stdout.index('[{'):]) if '[{' in p.stdout else []


def spec_out(y):
  """Real yield -> the specification's representation (tokens)."""
  seq = y['seq']
  out = [seq[0]] + [[t // 16, t % 16] for t in seq[1:]]
  res = None
  if 'res' in y:
    res = [[r['before'], [r['tok'] // 16, r['tok'] % 16]] for r in y['res']]
  return out, res


def op(o, b='none'):
  return {'op': o, 'b': b}


PROGRAMS = [
    [op('get')], [op('set', 'debug'), op('get')], [op('enter', 'debug'), op('get'), op('exit'), op('get')],
    [op('set', 'pmap'), op('enter', 'debug'), op('exit_exc'), op('get')], [op('enter', 'bad'), op('get')],
    [op('get'), op('enter', 'pmap'), op('enter', 'debug'), op('exit'), op('get'), op('exit'), op('get')],
    [op('set', 'bad'), op('get')], [op('set', 'debug'), op('set', 'none'), op('get')],
    [op('enter', 'none'), op('get'), op('exit_exc'), op('get')],
]


class RealThread:
  """A real thread executing one op at a time when handed the baton."""

  def __init__(self, fec):
    self.fec = fec
    self.cmd = None
    self.go = threading.Event()
    self.done = threading.Event()
    self.cms = []
    self.obs = []
    self.err = None
    self.thread = threading.Thread(target=self.loop, daemon=True)
    self.thread.start()

  def loop(self):
    while True:
      self.go.wait()
      self.go.clear()
      if self.cmd is None:
        self.done.set()
        return
      try:
        execute(self.fec, self.cmd, self.cms, self.obs)
      except Exception as ex:  # pylint: disable=broad-except
        self.err = f'{type(ex).__name__}: {ex}'
      self.done.set()

  def step(self, cmd):
    self.cmd = cmd
    self.done.clear()
    self.go.set()
    if not self.done.wait(30):
      raise Machinery('real thread did not finish an op')


EXIT_KINDS = [RuntimeError, KeyboardInterrupt, SystemExit, GeneratorExit]


def execute(fec, o, cms, obs):
  b = None if o['b'] == 'none' else o['b']
  if o['op'] == 'set':
    try:
      fec.set_for_each_client_backend(b)
    except ValueError:
      pass
  elif o['op'] == 'enter':
    cm = fec.for_each_client_backend(b)
    try:
      cm.__enter__()
      cms.append(cm)
    except ValueError:
      pass
  elif o['op'] == 'exit':
    cms.pop().__exit__(None, None, None)
  elif o['op'] == 'exit_exc':
    # the block is left by an exception of any kind: an ordinary error, Ctrl-C, sys.exit(), or the close of a suspended
    # generator that holds the context open
    EXIT_KINDS.append(EXIT_KINDS.pop(0))
    cls = EXIT_KINDS[0]
    e = cls('body failed') if cls is not GeneratorExit else cls()
    cms.pop().__exit__(cls, e, None)
  elif o['op'] == 'get':
    g = fec.get_for_each_client_backend()
    obs.append({'ForEachClientJitBackend': 'jit', 'ForEachClientDebugBackend': 'debug', 'ForEachClientPmapBackend': 'pmap'}.get(type(g).__name__, type(g).__name__))


def run(ctx):
  from fedjax.core import for_each_client as fec  # pylint: disable=g-import-not-at-top
  big = ctx.thorough
  rng = ctx.rng
  ctx.rule = ('case = (batch-count profile, listing order, backend, device count, with/without step results) for the backends; '
              '(pair of thread programs, interleaving) for backend selection; non-trivial = a block with a padding client or '
              'a padding batch, resp. an interleaving where both threads change their backend; distinct by these tuples')
  ctx.assumptions += ['multi-device pmap is simulated with forced host (CPU) devices, one subprocess per device count',
                      'on this platform a jitted identity never returns the caller buffer, so the copy in the jit '
                      'backend is checked on the design (buffer table) and, on the code, by inspecting the caller arrays']
  # ---------------- leg M
  dev_counts = [1, 2, 3, 4] + ([8] if big else [])
  emitted = None
  for d in dev_counts:
    consts = dict(MaxClients=5 if (big and d <= 4) else 4, MaxBatches=3, Devices=d, **TOG)
    r = ctx.model_check('ForEachClient', name=f'ForEachClient_M_D{d}', constants=consts, invariants=INVS + (['Emit'] if d == 3 else []),
                        workers=1 if d == 3 else None)
    if d == 3:
      emitted = r.json
  for tog, inv in (('MaskStep', 'NoPadObservable'), ('DropPadding', 'NoPadObservable'), ('Truncate', 'NoPadObservable'), ('CopyInit', 'CallerBuffersAlive')):
    c = dict(MaxClients=4, MaxBatches=3, Devices=3, **TOG)
    c[tog] = False
    ctx.model_check('ForEachClient', expect=[inv, 'ExactlyOnce', 'EqualsFold'], name=f'ForEachClient_ctl_{tog}', constants=c, invariants=INVS, coverage=False)
  mc = '---- MODULE MC_BackendChoice ----\nEXTENDS BackendChoice\nProgDef == {%s}\n====\n' % ', '.join(tla_value(p) for p in PROGRAMS)
  bc = dict(Threads=Raw('{1, 2}'), Programs=Raw('<- ProgDef'), ThreadLocal=True, RestorePrevious=True, RestoreOnError=True)
  rb = ctx.model_check('MC_BackendChoice', name='BackendChoice_M', constants=bc, invariants=['ThreadIsolation', 'PrefixIsolation', 'Emit'],
                       extra_modules={'MC_BackendChoice': mc}, workers=1)
  for tog in ('ThreadLocal', 'RestorePrevious', 'RestoreOnError'):
    c = dict(bc)
    c[tog] = False
    ctx.model_check('MC_BackendChoice', expect=['PrefixIsolation', 'ThreadIsolation'], name=f'BackendChoice_ctl_{tog}', constants=c,
                    invariants=['ThreadIsolation', 'PrefixIsolation'], extra_modules={'MC_BackendChoice': mc}, coverage=False)
  ctx.require_actions(['Blockify', 'PInit', 'PStep', 'Yield', 'JNext', 'JStep', 'JFinal', 'Set', 'Enter', 'Exit', 'Get'])

  # ---------------- leg R (backends)
  profiles = [c['nb'] for c in emitted]
  expect = {tuple(c['nb']): c['yielded'] for c in emitted}
  if not big:
    profiles = [p for i, p in enumerate(profiles) if len(p) <= 2 or i % 4 == 0]
  maxlen = 5
  jobs = []
  for d in ([1, 2, 3, 4, 8] if big else [1, 2, 3, 8]):
    # every fifth profile: the same for_each_client function is called three times, the shared input updated in between
    cases = [{'nb': p, 'gen': i % 2 == 0, 'jax_inputs': i % 3 != 0, 'calls': 3 if (i % 5 == 0 or i % 6 == 0) else 1, 'odd_ids': i % 2 == 1,
              'typed_keys': i % 3 == 1}
             for i, p in enumerate(profiles)]
    if d in (3, 4, 8) and not big:
      cases = cases[::3]
    backends = ['pmap'] + (['jit', 'debug'] if d == 1 else [])
    jobs.append({'devices': d, 'maxlen': maxlen, 'cases': cases, 'backends': backends, 'with_step_result': [True, False]})
  # leg T collections (larger, random listing orders)
  tcases = []
  for _ in range(120 if big else 16):
    k = rng.randint(0, 12)
    nb = [rng.choice([0, 0, 1, 2, rng.randint(0, 6)]) for _ in range(k)]
    order = list(range(k))
    rng.shuffle(order)
    tcases.append({'nb': nb, 'order': order, 'gen': rng.random() < .5})
  for d in ([1, 2, 3, 5, 8] if big else [2, 5]):
    jobs.append({'devices': d, 'maxlen': 8, 'cases': tcases, 'backends': ['pmap'] + (['jit'] if d == 2 else []), 'with_step_result': [True], 'T': True})
  with cf.ThreadPoolExecutor(max_workers=8) as ex:
    results = list(ex.map(worker, jobs))
  replayed = 0
  trs = []
  for job, recs in zip(jobs, results):
    for rec in recs:
      cfg = dict(nb=rec['nb'], backend=rec['backend'], devices=job['devices'], with_step_result=rec['with_step_result'], order=rec['order'])
      if rec.get('call'):
        cfg['call'] = rec['call'] + 1
      if rec.get('typed_keys'):
        cfg['typed_keys'] = True
      nb = rec['nb']
      pad = rec['backend'] == 'pmap' and (len(nb) % job['devices'] != 0 or len(set(nb)) > 1)
      ctx.case(key=repr(cfg), nontrivial=pad)
      if job.get('T'):
        ev = []
        for y in rec['yields']:
          out, res = spec_out(y)
          ev.append({'e': 'Yielded', 'id': y['id'], 'out': out, 'res': res, 'finite': y['finite']})
        if rec['error']:
          ev.append({'e': 'Error', 'msg': rec['error']})
        ev.append({'e': 'End', 'inputs_alive': rec['inputs_alive'], 'inputs_unchanged': rec['inputs_unchanged']})
        trs.append({'backend': 'pmap' if rec['backend'] == 'pmap' else 'jit', 'nb': nb, 'devices': job['devices'], 'events': ev, 'meta': cfg})
        continue
      replayed += 1
      if rec['error']:
        ctx.violation(f'replay:{rec["backend"]}:exception:{rec["error"].split(":")[0]}', f'{rec["error"]} for {cfg}', replay={'cfg': cfg})
        continue
      exp = expect[tuple(nb)]
      got = {y['id']: y for y in rec['yields']}
      problem = None
      if sorted(y['id'] for y in rec['yields']) != list(range(1, len(nb) + 1)):
        problem = ('ids', f'yielded ids {[y["id"] for y in rec["yields"]]} for {len(nb)} input clients')
      else:
        for c in range(1, len(nb) + 1):
          y = got[c]
          out, res = spec_out(y)
          e = exp[c - 1]
          b0 = rec.get('base', 1000.)
          base = [c * 0.5 + b0 + sum(c for _ in range(nb[c - 1])), c * 0.5 + b0 + sum(range(1, nb[c - 1] + 1))]
          hh = c
          for t in y['seq'][1:]:
            hh = (hh * 31 + t) % 2**32
          if out != e['out']:
            problem = ('output', f'client {c}: consumed tokens {out}, the fold is {e["out"]}')
          elif rec['with_step_result'] and res != e['res']:
            problem = ('step_results', f'client {c}: step results {res}, the fold gives {e["res"]}')
          elif not y['finite'] or y['vec'] != base or y['h'] != hh or y['k'] != rec.get('k', 7) or y['flag'] is not True:
            problem = ('values', f'client {c}: vec={y["vec"]} (expected {base}) h={y["h"]} (expected {hh}) flag={y["flag"]} k={y["k"]}')
          elif y.get('keys_ok') is False:
            problem = ('typed-keys', f'client {c}: the typed PRNG key of the client input / of a batch did not arrive unchanged')
          elif rec['with_step_result'] and any(r['q'] != 1.0 for r in y['res']):
            problem = ('padding-step-result', f'client {c}: a step result was computed on a padding batch')
          if problem:
            break
      if problem:
        ctx.violation(f'replay:{rec["backend"]}:{problem[0]}', f'{problem[1]} for {cfg}', replay={'cfg': cfg, 'yields': rec['yields'][:4]})
      elif not rec['inputs_alive']:
        ctx.violation(f'replay:{rec["backend"]}:inputs-deleted', f'a caller array was deleted (donated) for {cfg}', replay={'cfg': cfg})
      elif not rec['inputs_unchanged']:
        ctx.violation(f'replay:{rec["backend"]}:inputs-changed', f'a caller array changed for {cfg}', replay={'cfg': cfg})
  ctx.trace_ok(replayed)
  ctx.leg('R', profiles=len(profiles), backend_runs=replayed)
  ctx.sample({'leg': 'R', 'profile': emitted[len(emitted) // 2]['nb'], 'blocks(D=3)': emitted[len(emitted) // 2]['blocks']})
  # T: group by device count (a constant of the spec)
  by_d = {}
  for t in trs:
    by_d.setdefault(t['devices'], []).append(t)
  for d, ts in sorted(by_d.items()):
    consts = dict(MaxClients=12, MaxBatches=6, Devices=d, **TOG)
    verdicts, _ = vtraces.validate_batch(ctx, 'ForEachClientTrace', ts, consts, f'D{d}')
    for t, v in zip(ts, verdicts):
      if v.ok:
        continue
      what = v.inv if v.kind == 'violated' else f'rejected@{v.event["e"]}'
      ctx.violation(f'trace:{t["meta"]["backend"]}:{what}', f'real {t["meta"]["backend"]} run on {d} devices is not explained by ForEachClient for {t["meta"]}: '
                    f'{what} at event #{v.at} {v.event} (spec state {v.state})', replay={'cfg': t['meta'], 'trace': t})
  ctx.leg('T', backend_traces=len(trs))

  # ---------------- leg R (backend selection): replay every schedule on real threads
  scheds = rb.json
  if not big:
    scheds = scheds[::8]
  nsched = 0
  for s in scheds:
    fec.set_for_each_client_backend(None)
    ths = [RealThread(fec) for _ in range(2)]
    for t, i in s['hist']:
      ths[t - 1].step(s['prog'][t - 1][i - 1])
    for th in ths:
      th.step(None)
    got = [th.obs for th in ths]
    nsched += 1
    both = all(any(o['op'] in ('set', 'enter') for o in p) for p in s['prog'])
    ctx.case(key=('sched', repr(s['prog']), repr(s['hist'])), nontrivial=both)
    errs = [th.err for th in ths if th.err]
    if errs:
      ctx.violation('replay:selection:exception', f'{errs[0]} replaying schedule {s["hist"]} of programs {s["prog"]}', replay=s)
    elif got != s['obs']:
      ctx.violation('replay:selection:observations', f'threads observed {got}, the specification says {s["obs"]} for programs {s["prog"]} under schedule {s["hist"]}',
                    replay=s)
  ctx.trace_ok(nsched)
  ctx.leg('R', selection_schedules=nsched)
  # leg T (selection): free-running threads, each validated alone
  ttr = []
  for rnd in range(40 if big else 10):
    progs = [rng.choice(PROGRAMS) for _ in range(4)]
    results = [None] * 4

    def body(i):
      cms, obs = [], []
      for o in progs[i] * 3:
        execute(fec, o, cms, obs)
      results[i] = obs

    ths = [threading.Thread(target=body, args=(i,)) for i in range(4)]
    for th in ths:
      th.start()
    for th in ths:
      th.join()
    for i in range(4):
      ttr.append({'prog': progs[i] * 3, 'obs': results[i], 'events': [{'e': 'End'}]})
  mct = '---- MODULE MC_BackendChoiceTrace ----\nEXTENDS BackendChoiceTrace\n====\n'
  verdicts, _ = vtraces.validate_batch(ctx, 'BackendChoiceTrace', ttr, dict(Threads=Raw('{1}'), Programs=Raw('{}'), ThreadLocal=True, RestorePrevious=True, RestoreOnError=True), 'BC')
  for t, v in zip(ttr, verdicts):
    if not v.ok:
      ctx.violation('trace:selection:isolation', f'a free-running thread with program {t["prog"]} observed {t["obs"]}, not what its own program means (spec: {v.state})',
                    replay=t)
  ctx.leg('T', selection_traces=len(ttr))
