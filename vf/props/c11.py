"""C11 - stochastic quantizers are unbiased, bounded, finite and accounted.

Leg M: TLC on Quantizer.tla: for every level count 2..5 and every value on a 1/12 grid of [lo, hi] (lo = hi included)
       the outcome set {floor, ceil} and the exact probability t of ceil computed as the code computes them satisfy
       E = v, neighbouring grid levels inside [lo, hi], identity on the grid; the key discipline of the aggregators
       (Split / Seq terms) never reuses a key across clients and rounds.  Two deviations reported.
Leg R: every emitted case is replayed on ONE vector [lo, hi, v, v, ..., v] (20 000 copies): each coordinate must be in
       the specification's outcome set and the empirical frequency of ceil within the Hoeffding radius (delta 1e-12) of
       t; binary and TernGrad likewise; finiteness on constant / zero / size-1 / huge-range inputs through all four
       aggregators; aggregators: weighted mean within the largest per-client step, different randomness across
       clients and rounds, bit count increments equal the documented formula (float64).
"""
import math

import numpy as np

from vf.core import Machinery

INVS = ['Unbiased', 'Neighbours', 'OnGridIdentity', 'KeysNeverReused', 'BitsLinear']


def fr(r):
  return r[0] / r[1]


def run(ctx):
  import jax  # pylint: disable=g-import-not-at-top
  import jax.numpy as jnp  # pylint: disable=g-import-not-at-top
  from fedjax.aggregators import compression as cp  # pylint: disable=g-import-not-at-top
  big = ctx.thorough
  rng = ctx.rng
  ctx.rule = ('case = (quantizer, lo, hi, value on the grid, levels) replayed statistically; (aggregator, client trees, weights, round) '
              'for the aggregators; non-trivial = value strictly between two grid levels, resp. >= 2 clients with different trees; '
              'distinct by these tuples')
  ctx.assumptions += ['unbiasedness of the implementation is established statistically: 20 000 coordinates per case, Hoeffding radius with '
                      'delta = 1e-12 (false-alarm probability below 1e-9 per run; deterministic for a given VERIF_SEED)',
                      'the rotated quantizer\'s expectation is only checked after the inverse rotation (linearity)']
  base = dict(MaxL=5, Grid=12, Mode='uniform', RoundUpOnGrid=True, PerClientKeys=True, MaxRounds=3, MaxClients=3)
  r = ctx.model_check('Quantizer', name='Quantizer_M_uniform', constants=base, invariants=INVS + ['Emit'], workers=1)
  ctx.model_check('Quantizer', name='Quantizer_M_keys', constants=dict(base, Mode='keys', MaxRounds=4 if big else 3), invariants=INVS)
  ctx.model_check('Quantizer', expect=['Neighbours', 'OnGridIdentity'], name='Quantizer_ctl_RoundUpOnGrid', constants=dict(base, RoundUpOnGrid=False), invariants=INVS, coverage=False)
  ctx.model_check('Quantizer', expect='KeysNeverReused', name='Quantizer_ctl_PerClientKeys', constants=dict(base, Mode='keys', PerClientKeys=False), invariants=INVS, coverage=False)
  ctx.require_actions(['Quantize', 'AggRound'])

  n = 20000
  radius = math.sqrt(math.log(2 / 1e-12) / (2 * n))
  cases = r.json
  if not big:
    cases = cases[::2]
  kbase = jax.random.PRNGKey(ctx.seed + 11)
  replayed = 0
  for ci, c in enumerate(cases):
    # the quantizer commutes with positive scaling (exactly so for powers of two): every third case is replayed with a
    # tiny range (2^-50 of the specification's), every third with a large one
    scale = (1.0, 2.0 ** -50, 2.0 ** 40)[ci % 3]
    lo, hi, v, L = c['lo'] * scale, c['hi'] * scale, fr(c['v']) * scale, c['L']
    fl, ce, t = fr(c['fl']) * scale, fr(c['ce']) * scale, fr(c['t'])
    vec = np.full((n + 2,), v, np.float32)
    vec[0], vec[1] = lo, hi
    key = jax.random.fold_in(kbase, ci)
    out = np.asarray(cp.uniform_stochastic_quantize(jnp.array(vec), L, key), np.float64)[2:]
    cfg = dict(quantizer='uniform_stochastic_quantize', lo=lo, hi=hi, v=c['v'], levels=L, scale=scale)
    replayed += 1
    ctx.case(key=('u', lo, hi, tuple(c['v']), L), nontrivial=fl != ce)
    tolv = 4e-7 * max(scale, abs(lo), abs(hi))
    is_fl, is_ce = np.abs(out - fl) <= tolv, np.abs(out - ce) <= tolv
    if not np.all(np.isfinite(out)):
      ctx.violation('uniform:nonfinite', f'non-finite output for {cfg}', replay={'cfg': cfg})
    elif not np.all(is_fl | is_ce):
      bad = out[~(is_fl | is_ce)][0]
      ctx.violation('uniform:outcome', f'coordinate {bad} is not one of the neighbouring grid levels {{{fl}, {ce}}} for {cfg}', replay={'cfg': cfg})
    elif fl != ce and abs(float(np.mean(is_ce & ~is_fl)) - t) > radius:
      ctx.violation('uniform:probability', f'ceil frequency {float(np.mean(is_ce & ~is_fl)):.4f} vs exact probability {t:.4f} (radius {radius:.4f}) for {cfg}', replay={'cfg': cfg})
    if L == 2:
      outb = np.asarray(cp.binary_stochastic_quantize(jnp.array(vec), jax.random.fold_in(key, 1)), np.float64)[2:]
      is_lo, is_hi = np.abs(outb - lo) <= tolv, np.abs(outb - hi) <= tolv
      replayed += 1
      if not np.all(is_lo | is_hi) or not np.all(np.isfinite(outb)):
        ctx.violation('binary:outcome', f'binary quantizer output outside {{lo, hi}} for {cfg}', replay={'cfg': cfg})
      elif lo != hi and abs(float(np.mean(is_hi & ~is_lo)) - t) > radius and fl != ce:
        ctx.violation('binary:probability', f'hi frequency {float(np.mean(is_hi & ~is_lo)):.4f} vs {t:.4f} for {cfg}', replay={'cfg': cfg})
  # TernGrad: symmetric two-valued magnitude vectors have rational sigma; clip at 2.5 sigma; outputs in {-s, 0, s}
  for ci, (a, m_small, m_big) in enumerate([(1.0, 3000, 0), (1.0, 6000, 30), (0.25, 5000, 5), (2.0, 1000, 200)]):
    vec = np.concatenate([np.full(m_small, a), np.full(m_small, -a), np.full(m_big, 40 * a), np.full(m_big, -40 * a), [0.5 * a] * 4000, [-0.5 * a] * 4000]).astype(np.float32)
    sigma = float(np.std(vec.astype(np.float64)))
    if ci == 0:
      # leaves whose mean is far larger than their spread (sigma must come from the deviations, not from E[v^2] - E[v]^2):
      # every entry lies far outside 2.5 sigma, so all are clipped to +-2.5 sigma =: s and the output is sign(v) * s everywhere
      for base_v in (10000.0, -3000.0):
        lv = (base_v + np.tile(np.arange(8, dtype=np.float64), 500)).astype(np.float32)
        sg = float(np.std(lv.astype(np.float64)))
        outl = np.asarray(cp.terngrad_quantize(jnp.array(lv), jax.random.fold_in(kbase, 2000 + int(abs(base_v)))), np.float64)
        replayed += 1
        if not np.all(np.isfinite(outl)) or not np.allclose(outl, np.sign(base_v) * 2.5 * sg, rtol=1e-3):
          ctx.violation('terngrad:large-mean', f'TernGrad on a leaf {base_v} + (0..7): every entry exceeds 2.5 sigma = {2.5 * sg}, the output must be that value with the input sign; '
                        f'got values {sorted(set(np.round(outl, 4).tolist()))[:4]}', replay={'base': base_v})
    clipped = np.clip(vec.astype(np.float64), -2.5 * sigma, 2.5 * sigma)
    s = float(np.max(np.abs(clipped)))
    out = np.asarray(cp.terngrad_quantize(jnp.array(vec), jax.random.fold_in(kbase, 1000 + ci)), np.float64)
    cfg = dict(quantizer='terngrad_quantize', a=a, small=m_small, big=m_big)
    replayed += 1
    ctx.case(key=('t', ci), nontrivial=m_big > 0)
    ok_set = np.all((np.abs(out) <= 1e-6 * s) | (np.abs(np.abs(out) - s) <= 1e-5 * s))
    half = np.abs(np.abs(vec) - 0.5 * a) < 1e-9
    freq = float(np.mean(np.abs(out[half]) > 0.5 * s))
    want = 0.5 * a / s
    sign_ok = np.all((out == 0) | (np.sign(out) == np.sign(vec)))
    if not np.all(np.isfinite(out)) or not ok_set or not sign_ok:
      ctx.violation('terngrad:outcome', f'TernGrad output not in {{-s, 0, s}} with the input sign (s = {s}) for {cfg}', replay={'cfg': cfg})
    elif abs(freq - want) > math.sqrt(math.log(2 / 1e-12) / (2 * half.sum())):
      ctx.violation('terngrad:probability', f'P(|out| = s) = {freq:.4f} for |v| = {0.5 * a}, expected clipped |v| / s = {want:.4f} for {cfg}', replay={'cfg': cfg})
  ctx.trace_ok(replayed)
  ctx.leg('R', quantize_cases=replayed, coordinates_per_case=n, hoeffding_radius=radius)
  ctx.sample({'case': cases[5], 'meaning': 'a coordinate equals ce with probability t, else fl'})

  # ---- aggregators
  key0 = jax.random.PRNGKey(ctx.seed + 5)
  aggs = {
      'uniform': lambda k: cp.uniform_stochastic_quantizer(4, k),
      'uniform_arithmetic': lambda k: cp.uniform_stochastic_quantizer(4, k, 'arithmetic'),
      'rotated_uniform': lambda k: cp.rotated_uniform_stochastic_quantizer(4, k),
      'drive': cp.structured_drive_quantizer,
      'terngrad': cp.terngrad_quantizer,
  }
  nprng = np.random.RandomState(ctx.seed)
  specials = {'constant': np.full((8,), 1.5, np.float32), 'all_zero': np.zeros((8,), np.float32), 'size_one': np.array([3.0], np.float32),
              'huge_range': np.array([1e30, -1e30, 1.0, 0.0, 1e-20, 5e29, -7e29, 2.0], np.float32)}
  nagg = 0
  for name, mk in aggs.items():
    agg = mk(key0)
    # finiteness
    for sname, arr in specials.items():
      tree = {'w': jnp.array(arr), 'b': jnp.array(arr[:1])}
      out, _ = agg.apply([(b'a', tree, 2.0), (b'b', tree, 1.0)], agg.init())
      nagg += 1
      ctx.case(key=('finite', name, sname), nontrivial=True)
      if not all(np.all(np.isfinite(np.asarray(x))) for x in jax.tree_util.tree_leaves(out)):
        key = 'drive-all-zero-leaf-NaN' if (name == 'drive' and sname == 'all_zero') else f'agg:{name}:nonfinite:{sname}'
        ctx.violation(key, f'{name} aggregator returns NaN/Inf for a {sname} leaf {arr.tolist()[:4]}...', replay={'aggregator': name, 'input': sname})
      elif sname == 'size_one' and name in ('rotated_uniform', 'drive'):
        # a one-element vector is constant: it passes through the rotation-based aggregators unchanged, for every rotation key
        for kk in range(8):
          agg_k = mk(jax.random.PRNGKey(900 + kk))
          st_k = agg_k.init()
          for rnd in range(2):
            o_k, st_k = agg_k.apply([(b'a', tree, 2.0), (b'b', tree, 1.0)], st_k)
            if not all(np.allclose(np.asarray(a), np.asarray(b_), rtol=1e-5, atol=1e-6) for a, b_ in zip(jax.tree_util.tree_leaves(o_k), jax.tree_util.tree_leaves(tree))):
              ctx.violation(f'agg:{name}:identity:size_one', f'{name} aggregator (key {900 + kk}, round {rnd + 1}) turns the one-element leaf {arr.tolist()} into '
                            f'{[np.asarray(a).tolist() for a in jax.tree_util.tree_leaves(o_k)]}', replay={'aggregator': name, 'key': 900 + kk})
              break
      elif sname in ('constant', 'all_zero') and name in ('uniform', 'uniform_arithmetic'):
        if not all(np.array_equal(np.asarray(a), np.asarray(b_)) for a, b_ in zip(jax.tree_util.tree_leaves(out), jax.tree_util.tree_leaves(tree))):
          ctx.violation(f'agg:{name}:identity:{sname}', f'{name} aggregator changes a {sname} vector', replay={'aggregator': name, 'input': sname})
    # weighted mean within the largest per-client step; different randomness across clients and rounds; bits
    trees = [{'w': jnp.array(nprng.uniform(-1, 1, size=(4096,)), jnp.float32), 'b': jnp.array(nprng.uniform(-1, 1, size=(8,)), jnp.float32)} for _ in range(3)]
    weights = [3.0, 1.0, 2.0]
    state = agg.init()
    prev_bits = float(state.num_bits)
    outs = []
    for rnd in range(3):
      out, state = agg.apply([(b'c%d' % i, t, w) for i, (t, w) in enumerate(zip(trees, weights))], state)
      outs.append(out)
      nagg += 1
      ctx.case(key=('round', name, rnd), nontrivial=True)
      exact = jax.tree_util.tree_map(lambda *xs: sum(w * np.asarray(x, np.float64) for w, x in zip(weights, xs)) / sum(weights), *trees)
      if name in ('uniform', 'uniform_arithmetic'):
        for lname in ('w', 'b'):
          step = max((float(np.max(np.asarray(t[lname]))) - float(np.min(np.asarray(t[lname])))) / 3 for t in trees)
          err = float(np.max(np.abs(np.asarray(out[lname], np.float64) - exact[lname])))
          if err > step * (1 + 1e-5):
            ctx.violation(f'agg:{name}:error-bound', f'{name}: aggregated leaf {lname} is {err} from the exact weighted mean, more than the largest per-client grid step {step}',
                          replay={'aggregator': name})
      inc = float(state.num_bits) - prev_bits
      prev_bits = float(state.num_bits)
      nparams, nleaves = 4096 + 8, 2
      doc = {'uniform': math.log2(4) * nparams + 64 * nleaves, 'rotated_uniform': math.log2(4) * nparams + 64 * nleaves,
             'drive': nparams + 64 * nleaves, 'terngrad': math.log2(3) * nparams + 64 * nleaves}.get(name)
      if doc is not None and abs(inc - doc) > 1e-6 * doc:
        ctx.violation(f'agg:{name}:bits', f'{name}: round {rnd + 1} added {inc} bits, the documented formula gives {doc}', replay={'aggregator': name})
    if name != 'drive' and all(np.array_equal(np.asarray(outs[0]['w']), np.asarray(o['w'])) for o in outs[1:]):
      ctx.violation(f'agg:{name}:same-randomness-across-rounds', f'{name}: three rounds on the same inputs return bit-identical aggregates', replay={'aggregator': name})
    # different clients, same round: two identical trees with weights (1,0) and (0,1) from the SAME state
    if name != 'drive':
      st = agg.init()
      twin = trees[0]
      a, _ = agg.apply([(b'x', twin, 1.0), (b'y', twin, 0.0)], st)
      b_, _ = agg.apply([(b'x', twin, 0.0), (b'y', twin, 1.0)], st)
      nagg += 1
      if np.array_equal(np.asarray(a['w']), np.asarray(b_['w'])):
        ctx.violation(f'agg:{name}:same-randomness-across-clients', f'{name}: two clients of one round are quantized with the same randomness', replay={'aggregator': name})
    # one-pass inputs: a generator / map over the clients gives the same aggregate and state as the list
    st0 = agg.init()
    listed = [(b'c%d' % i, t, w) for i, (t, w) in enumerate(zip(trees, weights))]
    ref, ref_state = agg.apply(listed, st0)
    for kind, src in (('generator', (x for x in listed)), ('map', map(lambda x: x, listed)), ('iterator', iter(listed))):
      nagg += 1
      try:
        got, got_state = agg.apply(src, st0)
      except Exception as ex:  # pylint: disable=broad-except
        ctx.violation(f'agg:{name}:one-pass-input', f'{name}: {type(ex).__name__}: {str(ex)[:120]} when the clients come from a {kind}', replay={'aggregator': name, 'input': kind})
        continue
      same_out = all(np.array_equal(np.asarray(a), np.asarray(b_)) for a, b_ in zip(jax.tree_util.tree_leaves(got), jax.tree_util.tree_leaves(ref)))
      if not same_out or float(got_state.num_bits) != float(ref_state.num_bits):
        ctx.violation(f'agg:{name}:one-pass-input', f'{name}: the aggregate (or the bit count) differs when the same clients come from a {kind} instead of a list',
                      replay={'aggregator': name, 'input': kind})
    # every (round, client position) slot draws with its own randomness: identical trees, one-hot weights isolate the
    # quantised value of one slot; the state is threaded through three rounds
    if name != 'drive':
      st = agg.init()
      twin = trees[1]
      slots = {}
      for rnd in range(3):
        nxt = None
        for pos in range(3):
          o, s2 = agg.apply([(b'c%d' % i, twin, 1.0 if i == pos else 0.0) for i in range(3)], st)
          slots[(rnd, pos)] = np.asarray(o['w'])
          nxt = nxt or s2
        st = nxt
      nagg += 1
      names = sorted(slots)
      same = [(a, b_) for ai, a in enumerate(names) for b_ in names[ai + 1:] if np.array_equal(slots[a], slots[b_])]
      if same:
        ctx.violation(f'agg:{name}:randomness-reused-across-slots', f'{name}: (round, client position) slots {same[:4]} quantise the same vector to bit-identical values '
                      f'(state threaded through the rounds)', replay={'aggregator': name, 'slots': [list(map(list, p)) for p in same[:6]]})
    # many clients in one round (more than any internal chunk of keys): 80 identical small trees, one-hot weights - all 80 differ
    if name != 'drive':
      small = {'w': jnp.array(nprng.uniform(-1, 1, size=(96,)), jnp.float32)}
      st = agg.init()
      seen80 = {}
      for pos in range(80):
        o, _ = agg.apply([(b'k%d' % i, small, 1.0 if i == pos else 0.0) for i in range(80)], st)
        seen80.setdefault(np.asarray(o['w']).tobytes(), []).append(pos)
      nagg += 1
      dup = [v for v in seen80.values() if len(v) > 1]
      if dup:
        ctx.violation(f'agg:{name}:randomness-reused-across-slots', f'{name}: in a round of 80 clients the positions {dup[:4]} quantise the same vector to bit-identical values',
                      replay={'aggregator': name, 'positions': dup[:6]})
    # arithmetic coding: per round the increment is the documented per-client cost; with one client it can be recomputed from the returned tree
    if name == 'uniform_arithmetic':
      st = agg.init()
      for rnd, arr in enumerate([np.full((64,), 2.0, np.float32), nprng.uniform(-1, 1, size=(64,)).astype(np.float32), nprng.uniform(-1, 1, size=(16,)).astype(np.float32)]):
        before = float(st.num_bits)
        out, st = agg.apply([(b'only', {'w': jnp.array(arr)}, 1.0)], st)
        inc = float(st.num_bits) - before
        doc = float(sum(cp.arithmetic_encoding_num_bits(leaf) for leaf in jax.tree_util.tree_leaves(out)))
        nagg += 1
        if abs(inc - doc) > 1e-4 * max(1.0, doc):
          ctx.violation('agg:uniform_arithmetic:bits', f'arithmetic coding: round {rnd + 1} added {inc} bits, the cost of the transmitted tree is {doc}', replay={'round': rnd + 1})
  # "all level counts >= 2": 16-bit quantisation. A vector on the grid passes through unchanged and no output leaves
  # [min, max] (a quarter of a grid step of slack for float32 rescaling)
  for L in (65537, 65536, 257):
    grid = jnp.arange(L, dtype=jnp.float32)
    rnd_v = jnp.array(nprng.uniform(-3, 5, size=(204800,)), jnp.float32)
    for kk in range(3):
      k_ = jax.random.PRNGKey(7000 + kk + ctx.seed)
      nagg += 1
      ctx.case(key=('levels', L, kk), nontrivial=True)
      out_g = np.asarray(cp.uniform_stochastic_quantize(grid, L, k_), np.float64)
      moved = int(np.sum(np.abs(out_g - np.arange(L)) > 0.25))
      if moved:
        ctx.violation('uniform:on-grid-identity:many-levels', f'{moved} of the {L} entries of arange({L}) (every one a grid level for {L} levels) moved to another level (key {7000 + kk + ctx.seed})',
                      replay={'levels': L, 'key': 7000 + kk + ctx.seed})
      out_r = np.asarray(cp.uniform_stochastic_quantize(rnd_v, L, k_), np.float64)
      lo_, hi_ = float(np.min(np.asarray(rnd_v))), float(np.max(np.asarray(rnd_v)))
      step_ = (hi_ - lo_) / (L - 1)
      outside = int(np.sum((out_r > hi_ + step_ / 4) | (out_r < lo_ - step_ / 4)))
      if outside or not np.all(np.isfinite(out_r)):
        ctx.violation('uniform:outside-range:many-levels', f'{outside} of 204800 quantised values lie outside [min, max] = [{lo_}, {hi_}] by more than a quarter grid step with {L} levels',
                      replay={'levels': L, 'key': 7000 + kk + ctx.seed})
  # "all random keys": the rotation-based aggregators under the legacy (non-partitionable) threefry implementation too, on leaves
  # whose size is not a power of two: DRIVE keeps <x_hat, x> = |x|^2, the rotated quantiser stays unbiased (mean of 200 rounds)
  for legacy in (False, True):
    with jax.threefry_partitionable(not legacy):
      for size in ((50,), (5, 10), (3,)):
        x = np.asarray(nprng.uniform(-1, 1, size=size), np.float32)
        tree = {'w': jnp.array(x)}
        nagg += 1
        ctx.case(key=('prng-impl', legacy, size), nontrivial=legacy)
        cfg = dict(leaf_shape=list(size), threefry_partitionable=not legacy)
        agg_d = cp.structured_drive_quantizer(jax.random.PRNGKey(31 + ctx.seed))
        o_d, _ = agg_d.apply([(b'a', tree, 1.0)], agg_d.init())
        ratio = float(np.sum(np.asarray(o_d['w'], np.float64) * x) / np.sum(x.astype(np.float64) ** 2))
        if not np.isfinite(ratio) or abs(ratio - 1) > 1e-3:
          ctx.violation('agg:drive:scale', f'DRIVE: <x_hat, x> / |x|^2 = {ratio}, the scale is chosen so that it is 1, for {cfg}', replay={'cfg': cfg})
        agg_r = cp.rotated_uniform_stochastic_quantizer(4, jax.random.PRNGKey(32 + ctx.seed))
        st_r = agg_r.init()
        acc = np.zeros(size, np.float64)
        for _ in range(200):
          o_r, st_r = agg_r.apply([(b'a', tree, 1.0)], st_r)
          acc += np.asarray(o_r['w'], np.float64)
        rel = float(np.linalg.norm(acc / 200 - x) / np.linalg.norm(x))
        if not np.isfinite(rel) or rel > 0.3:
          ctx.violation('agg:rotated_uniform:biased', f'rotated quantiser: the mean of 200 rounds is {rel:.2f} |x| away from x (one client, weight 1) for {cfg}', replay={'cfg': cfg})
  ctx.trace_ok(nagg)
  ctx.leg('R', aggregator_runs=nagg)
