"""C05 - evaluation is invariant to batching and padding (metric monoid).

Leg M: TLC on EvalFold.tla: for an abstract bank of statistics (incl. weight-0 and out-of-domain raw values) and for
       the bank of every built-in discrete metric (single-example statistics computed by TLC from MetricDefs), every
       layout - which examples, order, cuts into batches, masked padding rows at any position - folds to the one-by-one
       merge; monoid laws; zero for empty input.  Deviations as sensitivity controls.
Leg R: sampled (quick) / all (thorough, bounded) layouts are replayed into fedjax.evaluate_model, metrics.evaluate_batch
       and ModelEvaluator (global and per-client params) with a mock model whose prediction is a batch feature; padded
       rows are filled with other valid examples or NaN scores.  Discrete metrics give integer statistics, so the
       comparison with the TLC rational is exact up to one division.
Leg T: cross-entropy family (real-valued statistics): relational facts (any layout vs. one-by-one) judged by TLC
       (PureHistory) with tolerance classes.
"""
import collections
import os

import numpy as np

from vf import intern
from vf import traces as vtraces
from vf.core import Machinery
from vf.props import c14
from vf.tlc import Raw, tla_value

INVS = ['FoldInvariant', 'OrderInvariant', 'EmptyIsZero', 'InDomain', 'MonoidLaws']
TOG = dict(MaskBeforeReduce=True, Sanitize=True, LeadingPadSkips=False)
SUM_METRICS = ('tok_count', 'seq_count', 'confusion')



# ONE forward function for every model of this check (as a user has one network and several metric sets): models that
# differ only in their eval_metrics are different models
def _model_init(rng_):
  return None


def _model_apply(params, batch):
  return batch['pred']

def components(c, stat, C):
  """Spec statistic -> list of [a, w] components (row-major for matrices)."""
  m = c['m']
  if m == 'confusion':
    rows = stat if isinstance(stat, list) else [stat[str(i)] for i in range(C)]
    rows = [r if isinstance(r, list) else [r[str(j)] for j in range(C)] for r in rows]
    return [{'a': v, 'w': 0} for r in rows for v in r]
  if m == 'per_domain_accuracy':
    seq = stat if isinstance(stat, list) else [stat[str(i)] for i in range(2)]
    return [dict(a=s['a'], w=s['w']) for s in seq]
  if m.endswith('_pp'):
    return [dict(a=s['a'], w=s['w']) for s in stat]
  if m in ('tok_count', 'seq_count'):
    return [{'a': stat['a'], 'w': 0}]
  return [dict(a=stat['a'], w=stat['w'])]


def build_batches(rows, layout, garbage_row=0, nan_pad=False, omit_full_mask=False):
  """Real batches for a layout (list of batches, each a list of slots: 0 = masked padding row, k = bank example k)."""
  batches = []
  for b in layout:
    slot_rows = []
    for s_ in b:
      if s_ == 0:
        g = dict(rows[garbage_row % len(rows)])
        if nan_pad:
          g = dict(g, pred=np.full_like(g['pred'], np.nan))
        slot_rows.append(g)
      else:
        slot_rows.append(rows[s_ - 1])
    batch = {k: np.stack([r_[k] for r_ in slot_rows]) for k in slot_rows[0]}
    mask = np.array([s_ != 0 for s_ in b])
    if not (all(mask) and omit_full_mask):
      batch['__mask__'] = mask
    batches.append(batch)
  return batches


def worker_main():
  """ModelEvaluator under the pmap backend with N forced host devices: several clients (= layouts) with different
  numbers of batches, listed shortest first.  Prints each client's metric result."""
  import json  # pylint: disable=g-import-not-at-top
  import os  # pylint: disable=g-import-not-at-top
  import sys  # pylint: disable=g-import-not-at-top
  job = json.load(sys.stdin)
  os.environ['XLA_FLAGS'] = '--xla_force_host_platform_device_count=%d' % job['devices']
  import jax  # pylint: disable=g-import-not-at-top
  import jax.numpy as jnp  # pylint: disable=g-import-not-at-top
  from fedjax.core import for_each_client as fec  # pylint: disable=g-import-not-at-top
  from fedjax.core import metrics  # pylint: disable=g-import-not-at-top
  from fedjax.core import models  # pylint: disable=g-import-not-at-top
  assert jax.local_device_count() == job['devices']
  out = []
  for g in job['groups']:
    metric = c14.make_metric(metrics, g['c0'], job['C'])
    model = models.Model(init=_model_init, apply_for_train=None, apply_for_eval=_model_apply, train_loss=None,
                         eval_metrics={'m': metric})
    rows = [{k: np.array(v, np.int32 if k != 'pred' else np.float32) for k, v in r.items()} for r in g['rows']]
    clients = [(b'c%d' % i, build_batches(rows, lay, garbage_row=i, nan_pad=False, omit_full_mask=g['omit_full_mask'])) for i, lay in enumerate(g['layouts'])]
    rec = {'results': None, 'error': None}
    try:
      with fec.for_each_client_backend('pmap'):
        evaluator = models.ModelEvaluator(model)
      if g['entry'] == 'global':
        res = dict(evaluator.evaluate_global_params(jnp.zeros(()), clients))
      else:
        res = dict(evaluator.evaluate_per_client_params([(cid, bs_, jnp.zeros(())) for cid, bs_ in clients]))
      rec['results'] = [np.asarray(res[b'c%d' % i]['m'], np.float64).reshape(-1).tolist() for i in range(len(clients))]
    except Exception as ex:  # pylint: disable=broad-except
      rec['error'] = f'{type(ex).__name__}: {str(ex)[:200]}'
    out.append(rec)
  sys.stdout.write('\nRESULT ' + json.dumps(out) + '\n')


def mc_module(bank, garbage):
  return ('---- MODULE MC_EvalFold ----\nEXTENDS EvalFold\n'
          f'BankDef == {tla_value(bank)}\nGarbDef == {tla_value(set_of(garbage))}\n====\n')


def set_of(lst):
  class S(frozenset):
    pass
  return _TlaSet(lst)


class _TlaSet(list):
  pass


def tla_set(lst):
  return '{' + ', '.join(tla_value(x) for x in lst) + '}'


def run(ctx):
  import jax  # pylint: disable=g-import-not-at-top
  import jax.numpy as jnp  # pylint: disable=g-import-not-at-top
  import fedjax  # pylint: disable=g-import-not-at-top
  from fedjax.core import metrics  # pylint: disable=g-import-not-at-top
  from fedjax.core import models  # pylint: disable=g-import-not-at-top
  big = ctx.thorough
  rng = ctx.rng
  C = 3
  ctx.rule = ('case = (metric, bank of examples, layout: order, cuts into batches, positions of masked padding rows, content '
              'of padding rows, entry point); non-trivial = layout with >= 2 batches or >= 1 padding row; distinct by all of these')
  ctx.assumptions += ['discrete metrics only in the exact replay; cross-entropy metrics are checked relationally '
                      '(any layout vs one-by-one merge) with tolerance classes',
                      'padding rows are filled with other valid examples or with NaN scores (which must be masked)']

  def fold(bank, garbage, kind, name, bounds, expect=None, toggles=None, emit=True):
    mod = ('---- MODULE MC_EvalFold ----\nEXTENDS EvalFold\n'
           f'BankDef == {tla_value(bank)}\nGarbDef == {tla_set(garbage)}\n====\n')
    consts = dict(Bank=Raw('<- BankDef'), Garbage=Raw('<- GarbDef'), Kind=kind, **bounds, **TOG)
    consts.update(toggles or {})
    invs = INVS + (['Emit'] if emit else [])
    if expect:
      return ctx.model_check('MC_EvalFold', expect=expect, name=name, constants=consts, invariants=INVS, extra_modules={'MC_EvalFold': mod}, coverage=False)
    return ctx.model_check('MC_EvalFold', name=name, constants=consts, invariants=invs, extra_modules={'MC_EvalFold': mod}, workers=1)

  # ---- leg M on the abstract bank
  abstract = [[{'a': 0, 'w': 0}], [{'a': 0, 'w': 1}], [{'a': 1, 'w': 1}], [{'a': 1, 'w': 2}], [{'a': 3, 'w': 0}]]
  garb = [[{'a': 1, 'w': 1}], [{'a': 5, 'w': 2}]]
  bounds = dict(MaxN=3, MaxSlots=3, MaxPads=2, MaxBatches=4 if big else 3)
  fold(abstract, garb, 'mean', 'EvalFold_abstract', bounds, emit=False)
  fold([[{'a': 1, 'w': 0}], [{'a': 2, 'w': 0}], [{'a': 0, 'w': 0}]], [[{'a': 7, 'w': 0}]], 'sum', 'EvalFold_abstract_sum', bounds, emit=False)
  for tog, val, inv in (('MaskBeforeReduce', False, 'FoldInvariant'), ('Sanitize', False, 'InDomain'), ('LeadingPadSkips', True, 'FoldInvariant')):
    fold(abstract, garb, 'mean', f'EvalFold_ctl_{tog}', dict(MaxN=2, MaxSlots=2, MaxPads=1, MaxBatches=2), expect=[inv, 'OrderInvariant'], toggles={tog: val})
  ctx.require_actions(['PlaceExample', 'PlacePad', 'CloseBatch'])

  # ---- single-example statistics of every discrete metric, computed by TLC (MetricCases)
  base = dict(C=C, ScoreMax=2, SeqLen=2, TieLowest=True, OovIsMember=True, NegKZero=True)
  rs = ctx.tlc('MetricCases', name='MetricCases_single', constants=dict(base, Family='single'), invariants=['Emit'], workers=1, coverage=False)
  rq = ctx.tlc('MetricCases', name='MetricCases_sequence', constants=dict(base, Family='sequence'), invariants=['Emit'], workers=1, coverage=False)
  groups = collections.defaultdict(list)
  for j in rs.json + rq.json:
    if j['c']['m'] != 'xent_tokens':
      groups[c14.cfg_key(j['c'])].append(j)
  # one configuration per metric kind (plus variants in the thorough tier)
  chosen = {}
  for key, items in sorted(groups.items(), key=lambda kv: repr(kv[0])):
    m = key[0]
    want = [(m, 2, (0,), (), (), 1), (m, 1, (0,), (), (), 1), (m, 1, (0,), (), (1, 2), 1), (m, 2, (0,), (2,), (), 1), (m, 1, (0,), (2,), (), 1),
            (m, 1, (0, 2), (), (), 2)]
    if key in want and (big or m not in chosen):
      chosen.setdefault(m, []).append(key)
    if m in ('accuracy', 'confusion', 'per_domain_accuracy') and m not in chosen:
      chosen[m] = [key]
  total_layouts = 0
  replayed = 0
  pmap_groups = []
  per_metric = 1200 if big else 150
  for m, keys in sorted(chosen.items()):
    for key in keys[: (3 if big else 1)]:
      items = groups[key]
      c0 = items[0]['c']
      metric = c14.make_metric(metrics, c0, C)
      # bank: examples with pairwise different statistics, zero-weight first
      seen, bank_items = set(), []
      order = sorted(items, key=lambda it: (sum(x['w'] for x in components(it['c'], it['stat'], C)), rng.random()))
      for it in order:
        sig = repr(components(it['c'], it['stat'], C))
        if sig not in seen:
          seen.add(sig)
          bank_items.append(it)
        if len(bank_items) == 4:
          break
      bank = [components(it['c'], it['stat'], C) for it in bank_items]
      kind = 'sum' if m in SUM_METRICS else 'mean'
      garbage = [bank[-1]]
      r = fold(bank, garbage, kind, f'EvalFold_{m}_{abs(hash(key)) % 1000}', dict(MaxN=3, MaxSlots=3, MaxPads=2 if big else 1, MaxBatches=3))
      layouts = r.json
      total_layouts += len(layouts)
      rng.shuffle(layouts)
      single = 'scores' in c0
      model = models.Model(init=_model_init, apply_for_train=None, apply_for_eval=_model_apply,
                           train_loss=None, eval_metrics={'m': metric})
      evaluator = models.ModelEvaluator(model)

      def row(it):
        c = it['c']
        ex = {'y': np.array(c['target'], np.int32), 'pred': np.array(c.get('scores', c.get('preds')), np.float32)}
        if m == 'per_domain_accuracy':
          ex['domain_id'] = np.array(c['d'], np.int32)
        return ex

      rows = [row(it) for it in bank_items]
      # for the multi-device replay: three layouts with 1, 2 and 3 batches become three clients, listed shortest first
      # (the pmap backend stacks the clients' batches of a block, so all batches must have one shape: layouts whose
      # batches all have `width` rows)
      for omit in (False, True):
        for width in ((1, 2, 3) if omit else (2, 3)):
          by_len = {}
          for lay in layouts:
            lo = lay['layout']
            if lo and all(len(b) == width for b in lo) and (not omit or all(s_ != 0 for b in lo for s_ in b)):
              by_len.setdefault(len(lo), lay)
          if len(by_len) >= 2:
            trio = [by_len[k] for k in sorted(by_len)][:3]
            pmap_groups.append({'m': m, 'kind': kind, 'c0': c0, 'rows': [{k: v.tolist() for k, v in r_.items()} for r_ in rows],
                                'layouts': [lay['layout'] for lay in trio], 'expect': [[lay['a'], lay['w']] for lay in trio],
                                'omit_full_mask': omit, 'entry': 'global' if len(pmap_groups) % 2 == 0 else 'per_client'})
            break
      for li, lay in enumerate(layouts[:per_metric]):
        batches = []
        for b in lay['layout']:
          slot_rows = []
          for s in b:
            if s == 0:
              g = dict(rows[rng.randrange(len(rows))])
              if li % 3 == 0:
                g = dict(g, pred=np.full_like(g['pred'], np.nan))
              slot_rows.append(g)
            else:
              slot_rows.append(rows[s - 1])
          batch = {k: np.stack([r_[k] for r_ in slot_rows]) for k in slot_rows[0]}
          mask = np.array([s != 0 for s in b])
          if not (all(mask) and li % 2):
            batch['__mask__'] = mask
          batches.append(batch)
        how = ('evaluate_model', 'evaluate_global_params', 'evaluate_per_client_params', 'evaluate_batch')[li % 4]
        if how == 'evaluate_batch' and len(batches) != 1:
          how = 'evaluate_model'
        cfg = dict(metric=type(metric).__name__, args={k: v for k, v in c0.items() if k in ('k', 'masked', 'banned', 'oov', 'eos')},
                   bank=[{k: v for k, v in it['c'].items() if k in ('target', 'scores', 'preds', 'd')} for it in bank_items],
                   layout=lay['layout'], entry=how, nan_padding=(li % 3 == 0))
        # the batches are documented as an Iterable: a list, a one-shot iterator or a generator
        feed = (batches, iter(batches), (b_ for b_ in batches))[(li // 4) % 3]
        cfg['batches_as'] = ('list', 'iterator', 'generator')[(li // 4) % 3]
        try:
          if how == 'evaluate_model':
            got = models.evaluate_model(model, None, feed)['m']
          elif how == 'evaluate_global_params':
            got = dict(evaluator.evaluate_global_params(jnp.zeros(()), iter([(b'c', feed)])))[b'c']['m']
          elif how == 'evaluate_per_client_params':
            got = dict(evaluator.evaluate_per_client_params((x for x in [(b'c', feed, jnp.zeros(()))])))[b'c']['m']
          else:
            b0 = batches[0]
            st = metrics.evaluate_batch(metric, b0, b0['pred'], b0.get('__mask__'))
            got = st.result()
        except Exception as ex:  # pylint: disable=broad-except
          ctx.violation(f'replay:{m}:exception:{type(ex).__name__}', f'{type(ex).__name__}: {ex} for {cfg}', replay={'cfg': cfg})
          continue
        a = np.array(lay['a'], np.float64)
        w = np.array(lay['w'], np.float64)
        exp = a if kind == 'sum' else np.where(w == 0, 0., a / np.where(w == 0, 1, w))
        gotf = np.asarray(got, np.float64).reshape(-1)
        if gotf.size == 1 and exp.size > 1 and not any(any(s_ != 0 for s_ in b) for b in lay['layout']):
          gotf = np.broadcast_to(gotf, exp.shape)   # no real example at all: the metric's (scalar) zero statistic
        replayed += 1
        ctx.case(key=(m, repr(key), repr(lay['layout']), how), nontrivial=len(lay['layout']) >= 2 or any(0 in b for b in lay['layout']))
        if gotf.shape != exp.shape or np.any(np.isnan(gotf)) or not np.allclose(gotf, exp, rtol=1e-6, atol=0):
          ctx.violation(f'replay:{m}:{how}', f'{how} gives {gotf.tolist()} but merging the single-example statistics one by one gives '
                        f'{exp.tolist()} (a={lay["a"]}, w={lay["w"]}) for {cfg}', replay={'cfg': cfg, 'expected': exp.tolist(), 'actual': gotf.tolist()})
      if len(ctx.samples) < 2:
        ctx.sample({'metric': type(metric).__name__, 'bank_stats': bank, 'layout': layouts[0]['layout'], 'expected': [layouts[0]['a'], layouts[0]['w']]})
  ctx.trace_ok(replayed)
  ctx.leg('R', metrics=sum(len(v[: (3 if big else 1)]) for v in chosen.values()), layouts_enumerated=total_layouts, replays=replayed)

  # ---- without jit: the debug backend (per-client path, two clients and two calls on ONE evaluator) and jax.disable_jit()
  # around evaluate_model on the same cached batch objects twice; the caller's batches must keep their mask
  from fedjax.core import for_each_client as fec_mod  # pylint: disable=g-import-not-at-top
  nd = 0
  for g in pmap_groups[::2]:
    metric = c14.make_metric(metrics, g['c0'], C)
    model = models.Model(init=_model_init, apply_for_train=None, apply_for_eval=_model_apply, train_loss=None,
                         eval_metrics={'m': metric})
    rows_g = [{k: np.array(v, np.int32 if k != 'pred' else np.float32) for k, v in r_.items()} for r_ in g['rows']]
    clients_g = [(b'c%d' % i, build_batches(rows_g, lay, garbage_row=i, omit_full_mask=g['omit_full_mask'])) for i, lay in enumerate(g['layouts'])]
    cfg = dict(metric=g['m'], args={k: v for k, v in g['c0'].items() if k in ('k', 'masked', 'banned', 'oov', 'eos')}, layouts=g['layouts'])

    def expect_of(i):
      a, w = np.array(g['expect'][i][0], np.float64), np.array(g['expect'][i][1], np.float64)
      return a if g['kind'] == 'sum' else np.where(w == 0, 0., a / np.where(w == 0, 1, w))

    def differs(got, exp):
      gotf = np.asarray(got, np.float64).reshape(-1)
      if gotf.size == 1 and exp.size > 1:
        gotf = np.broadcast_to(gotf, exp.shape)
      return gotf.shape != exp.shape or np.any(np.isnan(gotf)) or not np.allclose(gotf, exp, rtol=1e-6, atol=0)

    try:
      with fec_mod.for_each_client_backend('debug'):
        ev_debug = models.ModelEvaluator(model)
      for call in range(2):
        res = dict(ev_debug.evaluate_global_params(jnp.zeros(()), clients_g))
        nd += 1
        for i in range(len(clients_g)):
          if differs(res[b'c%d' % i]['m'], expect_of(i)):
            ctx.violation(f'nojit:{g["m"]}:debug-backend', f'ModelEvaluator on the debug backend, call {call + 1}: client {i} gets {np.asarray(res[b"c%d" % i]["m"]).tolist()}, '
                          f'its own statistics merge to {expect_of(i).tolist()}; {cfg}', replay={'cfg': cfg})
            break
      had_mask = [['__mask__' in b for b in bs_] for _, bs_ in clients_g]
      with jax.disable_jit():
        for call in range(2):
          for i, (_, bs_) in enumerate(clients_g):
            got = models.evaluate_model(model, None, bs_)['m']
            nd += 1
            if differs(got, expect_of(i)):
              ctx.violation(f'nojit:{g["m"]}:evaluate_model', f'evaluate_model without jit, pass {call + 1} over the same batch objects: {np.asarray(got).tolist()} for layout '
                            f'{g["layouts"][i]}, expected {expect_of(i).tolist()}; {cfg}', replay={'cfg': cfg})
      if had_mask != [['__mask__' in b for b in bs_] for _, bs_ in clients_g]:
        ctx.violation(f'nojit:{g["m"]}:batch-mutated', f'evaluation removed the mask from the caller\'s batches; {cfg}', replay={'cfg': cfg})
    except Exception as ex:  # pylint: disable=broad-except
      ctx.violation(f'nojit:{g["m"]}:exception', f'{type(ex).__name__}: {str(ex)[:200]} without jit; {cfg}', replay={'cfg': cfg})
  ctx.trace_ok(nd)
  ctx.leg('R', evaluations_without_jit=nd)

  # ---- the per-client evaluation path on several devices (pmap backend, 2 and 3 forced host devices, separate processes)
  import json  # pylint: disable=g-import-not-at-top
  import subprocess  # pylint: disable=g-import-not-at-top
  import sys  # pylint: disable=g-import-not-at-top
  npm = 0
  for devices in (2, 3):
    pr = subprocess.run([sys.executable, '-c', 'from vf.props import c05; c05.worker_main()'], input=json.dumps({'devices': devices, 'C': C, 'groups': pmap_groups}),
                        capture_output=True, text=True, env=dict(os.environ), timeout=3000)
    if pr.returncode != 0 or '\nRESULT ' not in pr.stdout:
      raise Machinery('c05 worker failed: ' + pr.stderr[-600:])
    for g, rec in zip(pmap_groups, json.loads(pr.stdout[pr.stdout.rindex('\nRESULT ') + 8:])):
      cfg = dict(metric=g['m'], args={k: v for k, v in g['c0'].items() if k in ('k', 'masked', 'banned', 'oov', 'eos')}, devices=devices, layouts=g['layouts'],
                 masks_omitted_on_full_batches=g['omit_full_mask'], entry=g['entry'])
      npm += 1
      ctx.case(key=('pmap', g['m'], devices, g['omit_full_mask']), nontrivial=True)
      if rec['error']:
        ctx.violation(f'pmap:{g["m"]}:exception', f'{rec["error"]} for {cfg}', replay={'cfg': cfg})
        continue
      for i, ((a, w), got) in enumerate(zip(g['expect'], rec['results'])):
        a, w = np.array(a, np.float64), np.array(w, np.float64)
        exp = a if g['kind'] == 'sum' else np.where(w == 0, 0., a / np.where(w == 0, 1, w))
        gotf = np.array(got, np.float64)
        if gotf.size == 1 and exp.size > 1:
          gotf = np.broadcast_to(gotf, exp.shape)
        if gotf.shape != exp.shape or np.any(np.isnan(gotf)) or not np.allclose(gotf, exp, rtol=1e-6, atol=0):
          ctx.violation(f'pmap:{g["m"]}', f'ModelEvaluator on {devices} devices gives {gotf.tolist()} for client {i} (layout {g["layouts"][i]}), merging its single-example '
                        f'statistics gives {exp.tolist()}; {cfg}', replay={'cfg': cfg, 'client': i})
          break
  ctx.trace_ok(npm)
  ctx.leg('R', multi_device_evaluations=npm)

  # ---- sibling configurations: the SAME batch (same shapes, dtypes, mask) evaluated through the jitted batch path under
  # every configuration of a metric kind, one after the other and again in reverse order, in this one process: each
  # instance must give the merge of ITS single-example statistics (instances differing in one field are different metrics)
  sib = 0
  by_kind = collections.defaultdict(list)
  for key in sorted(groups, key=repr):
    by_kind[key[0]].append(key)
  for m, keys in sorted(by_kind.items()):
    if len(keys) < 2:
      continue
    kind = 'sum' if m in SUM_METRICS else 'mean'
    tables = {}
    for key in keys:
      tables[key] = {repr((it['c']['target'], it['c'].get('scores', it['c'].get('preds')), it['c'].get('d'))): it for it in groups[key]}
    common = sorted(set.intersection(*[set(t) for t in tables.values()]))
    if len(common) < 3:
      continue
    picks = [common[i] for i in sorted(rng.sample(range(len(common)), 3))]
    c_first = tables[keys[0]][picks[0]]['c']
    batch = {'y': np.array([tables[keys[0]][pk]['c']['target'] for pk in picks], np.int32),
             'pred': np.array([tables[keys[0]][pk]['c'].get('scores', tables[keys[0]][pk]['c'].get('preds')) for pk in picks], np.float32)}
    if m == 'per_domain_accuracy':
      batch['domain_id'] = np.array([tables[keys[0]][pk]['c']['d'] for pk in picks], np.int32)
    del c_first
    for key in keys + keys[::-1]:
      metric = c14.make_metric(metrics, tables[key][picks[0]]['c'], C)
      comps = [components(tables[key][pk]['c'], tables[key][pk]['stat'], C) for pk in picks]
      a = np.array([sum(cp[j]['a'] for cp in comps) for j in range(len(comps[0]))], np.float64)
      w = np.array([sum(cp[j]['w'] for cp in comps) for j in range(len(comps[0]))], np.float64)
      exp = a if kind == 'sum' else np.where(w == 0, 0., a / np.where(w == 0, 1, w))
      cfg = dict(metric=type(metric).__name__, args={k: v for k, v in tables[key][picks[0]]['c'].items() if k in ('k', 'masked', 'banned', 'oov', 'eos')},
                 batch={k: v.tolist() for k, v in batch.items()}, siblings=len(keys))
      try:
        got = np.asarray(metrics.evaluate_batch(metric, batch, batch['pred'], None).result(), np.float64).reshape(-1)
      except Exception as ex:  # pylint: disable=broad-except
        ctx.violation(f'siblings:{m}:exception:{type(ex).__name__}', f'{type(ex).__name__}: {ex} for {cfg}', replay={'cfg': cfg})
        continue
      sib += 1
      ctx.case(key=('sib', m, repr(key)), nontrivial=True)
      if got.shape != exp.shape or np.any(np.isnan(got)) or not np.allclose(got, exp, rtol=1e-6, atol=0):
        ctx.violation(f'siblings:{m}', f'evaluate_batch gives {got.tolist()} but this configuration\'s single-example statistics merge to {exp.tolist()} '
                      f'(evaluated after sibling configurations of the same metric class on the same batch) for {cfg}',
                      replay={'cfg': cfg, 'expected': exp.tolist(), 'actual': got.tolist()})
  ctx.trace_ok(sib)
  ctx.leg('R', sibling_evaluations=sib)

  # ---- leg T: cross-entropy family, relational
  ev = []
  tol = intern.Tolerant(rtol=2e-5, atol=2e-6)
  nprng = np.random.RandomState(ctx.seed)
  xm = {'xent': (metrics.CrossEntropyLoss(), False), 'seq_tok_xent': (metrics.SequenceTokenCrossEntropyLoss(), True),
        'seq_xent': (metrics.SequenceCrossEntropyLoss(), True), 'seq_tok_xent_pp': (metrics.SequenceTokenCrossEntropyLoss(per_position=True), True)}
  for name, (metric, seq) in xm.items():
    model = models.Model(init=_model_init, apply_for_train=None, apply_for_eval=_model_apply,
                         train_loss=None, eval_metrics={'m': metric})
    for trial in range(30 if big else 8):
      n = rng.randint(1, 5)
      if seq:
        ys = nprng.randint(0, C, size=(n, 3)).astype(np.int32)
        if trial % 3 == 0:
          ys[0] = 0  # a fully masked sequence
        preds = (nprng.randn(n, 3, C) * rng.choice([1, 20])).astype(np.float32)
      else:
        ys = nprng.randint(0, C, size=(n,)).astype(np.int32)
        preds = (nprng.randn(n, C) * rng.choice([1, 20])).astype(np.float32)
      key = f'{name}#{trial}'
      # one by one
      one = models.evaluate_model(model, None, [{'y': ys[i:i + 1], 'pred': preds[i:i + 1]} for i in range(n)])['m']
      ev.append({'e': 'Call', 'key': key, 'out': tol(one)})
      for _ in range(4):
        perm = list(range(n))
        rng.shuffle(perm)
        batches, i = [], 0
        while i < n:
          k = rng.randint(1, 3)
          idx = perm[i:i + k]
          i += k
          padn = rng.randint(0, 2)
          pos = sorted(rng.sample(range(len(idx) + padn), padn))
          rows_y, rows_p, mask = [], [], []
          it = iter(idx)
          for slot in range(len(idx) + padn):
            if slot in pos:
              rows_y.append(nprng.randint(0, C, size=ys.shape[1:]).astype(np.int32))
              rows_p.append(np.full(preds.shape[1:], np.nan, np.float32) if rng.random() < .5 else (nprng.randn(*preds.shape[1:]) * 50).astype(np.float32))
              mask.append(False)
            else:
              j = next(it)
              rows_y.append(ys[j])
              rows_p.append(preds[j])
              mask.append(True)
          batches.append({'y': np.stack(rows_y), 'pred': np.stack(rows_p), '__mask__': np.array(mask)})
        if rng.random() < .3:
          batches.insert(rng.randint(0, len(batches)), {'y': ys[:1] * 0, 'pred': preds[:1] * np.nan, '__mask__': np.array([False])})
        out = models.evaluate_model(model, None, batches)['m']
        ev.append({'e': 'Call', 'key': key, 'out': tol(out)})
        ev.append({'e': 'Fact', 'name': 'Finite', 'about': key, 'holds': bool(np.all(np.isfinite(np.asarray(out))))})
      ctx.case(key=('xent', name, trial), nontrivial=n >= 2)
    empty = models.evaluate_model(model, None, [])['m']
    ev.append({'e': 'Fact', 'name': 'EmptyIsZero', 'about': name, 'holds': bool(np.all(np.asarray(empty) == 0))})
    fm = models.evaluate_model(model, None, [{'y': ys[:1], 'pred': preds[:1], '__mask__': np.array([False])}])['m']
    ev.append({'e': 'Fact', 'name': 'FullyMaskedIsZero', 'about': name, 'holds': bool(np.all(np.asarray(fm) == 0))})
  # monoid laws on the real Stat objects of every metric (merging raw single-example statistics directly, in every
  # grouping, with and without the zero), tied to evaluate_model on the same examples
  all_metrics = dict(xm)
  for m_, keys in sorted(chosen.items()):
    c0 = groups[keys[0]][0]['c']
    all_metrics['d:' + m_] = (c14.make_metric(metrics, c0, C), 'scores' not in c0)
  for name, (metric, seq) in sorted(all_metrics.items()):
    model = models.Model(init=_model_init, apply_for_train=None, apply_for_eval=_model_apply,
                         train_loss=None, eval_metrics={'m': metric})
    for trial in range(6 if big else 3):
      shp = (3, 2) if seq else (3,)
      ys = nprng.randint(0, C, size=shp).astype(np.int32)
      if seq and trial == 0:
        ys[1] = 0
      preds = nprng.randint(0, 3, size=shp + (C,)).astype(np.float32)
      exs = [{'y': jnp.array(ys[i]), 'domain_id': jnp.array(i % 2, jnp.int32)} for i in range(3)]
      st = [metric.evaluate_example(exs[i], jnp.array(preds[i])) for i in range(3)]
      z = metric.zero()
      key = f'monoid:{name}#{trial}'
      ref = models.evaluate_model(model, None, [{'y': ys, 'pred': preds, 'domain_id': np.array([0, 1, 0], np.int32)}])['m']
      ev.append({'e': 'Call', 'key': key, 'out': tol(ref)})
      groupings = {
          '(a.b).c': st[0].merge(st[1]).merge(st[2]), 'a.(b.c)': st[0].merge(st[1].merge(st[2])),
          '(c.a).b': st[2].merge(st[0]).merge(st[1]), 'z.(a.(b.c))': z.merge(st[0].merge(st[1].merge(st[2]))),
          '((a.z).b).c': st[0].merge(z).merge(st[1]).merge(st[2]), '(b.c).(a.z)': st[1].merge(st[2]).merge(st[0].merge(z)),
      }
      for gname, g in groupings.items():
        ev.append({'e': 'Call', 'key': key, 'out': tol(g.result())})
      ev.append({'e': 'Call', 'key': key + ':identity', 'out': tol(st[0].result())})
      ev.append({'e': 'Call', 'key': key + ':identity', 'out': tol(z.merge(st[0]).result())})
      ev.append({'e': 'Call', 'key': key + ':identity', 'out': tol(st[0].merge(z).result())})
      ctx.case(key=('monoid', name, trial), nontrivial=True)
  vs, _ = vtraces.validate_batch(ctx, 'PureHistory', [{'events': ev}], {}, 'PH')
  v = vs[0]
  if not v.ok:
    ctx.violation(f'facts:{v.inv or "rejected"}:{(v.state or "")[:60]}', f'metric statistics (relational): {v.inv} at event #{v.at} {v.event}; recorded {v.state}',
                  replay={'events': ev[max(0, (v.at or 1) - 6):(v.at or 1) + 1]})
  ctx.leg('T', relational_events=len(ev))
