"""C13 - client sampling is a pure function of (seed, round number).

Leg M: TLC on Sampler.tla (all histories of sample / set_round_num / fresh sampler; streaming restarts), with the
       deviations "hidden generator advanced across calls" and "restart skips r*k - 1 items" as sensitivity controls.
Leg R: every history TLC enumerates is replayed on real samplers.
Leg T: the replayed executions (plus longer random ones, in-memory and SQLite datasets, fresh samplers in separate
       processes with different hash seeds) are validated by TLC (SamplerTrace): PureInRound over all of them,
       keys distinct within and across rounds, ids from the dataset, datasets matching ids.
"""
import json

import numpy as np
import os
import subprocess
import sys

from vf import traces as vtraces
from vf.core import Machinery

IDS = [b'\x00', b'a', b'a\x00', b'a\x00\x00', b'ab', b'b', b'\xff', b'b\x00', b'client_7', b'z' * 9]
HERE = os.path.dirname(os.path.abspath(__file__))


def run_worker(job, hashseed):
  env = dict(os.environ)
  env['PYTHONHASHSEED'] = str(hashseed)
  p = subprocess.run([sys.executable, os.path.join(HERE, 'c13_worker.py')], input=json.dumps(job), capture_output=True,
                     text=True, env=env, timeout=600)
  if p.returncode != 0:
    raise Machinery('c13 worker failed: ' + p.stderr[-400:])
  return json.loads(p.stdout[p.stdout.index('['):])


class Interner:

  def __init__(self):
    self.tab = {}

  def __call__(self, x):
    return self.tab.setdefault(x, len(self.tab) + 1)


def run(ctx):
  big = ctx.thorough
  rng = ctx.rng
  ctx.rule = ('case = one history of (new sampler at round r | set_round_num r | sample) on a (dataset kind, number of '
              'clients, cohort size, seed, sampler kind) configuration; non-trivial = a round is sampled at least twice '
              'along different paths; distinct by configuration and history')
  ctx.assumptions += ['fresh samplers are also created in separate processes with other PYTHONHASHSEED values '
                      '(a restart); outputs are compared by content digest']
  r = ctx.model_check('Sampler', name='Sampler_M', constants=dict(MaxRound=3, MaxOps=5 if big else 4, Cohort=2, Stateless=True, SkipExact=True),
                      invariants=['PureInRound', 'Emit'], workers=1)
  for tog in ('Stateless', 'SkipExact'):
    c = dict(MaxRound=3, MaxOps=4, Cohort=2, Stateless=True, SkipExact=True)
    c[tog] = False
    ctx.model_check('Sampler', expect='PureInRound', name=f'Sampler_ctl_{tog}', constants=c, invariants=['PureInRound'], coverage=False)
  ctx.require_actions(['Sample', 'SetRound', 'NewGet', 'StreamSample', 'NewStream'])

  # SQLite file for the sqlite-backed configurations
  import fedjax  # pylint: disable=g-import-not-at-top,unused-import
  from fedjax.core import sqlite_federated_data as sq  # pylint: disable=g-import-not-at-top
  from vf.props import c13_worker
  paths = {}
  for n in (3, 5, 6, 10):
    path = os.path.join(ctx.scratch, f's{n}.sqlite')
    _, data = c13_worker.build_fd(fedjax, 'mem', IDS[:n])
    order = list(IDS[:n])
    rng.shuffle(order)
    with sq.SQLiteFederatedDataBuilder(path) as b:
      b.add_many([(c, data[c]) for c in order])
    paths[n] = path

  # configurations; every history of one configuration shares one trace (PureInRound across all of them)
  cases = [c for c in r.json]
  get_h = [c['hist'] for c in cases if c['kind'] == 'get']
  str_h = [c['hist'] for c in cases if c['kind'] == 'stream']
  rng.shuffle(get_h)
  rng.shuffle(str_h)
  cfgs = []
  for n in (3, 6, 10):
    for cohort in sorted({1, 2, n // 2, n}):
      if cohort < 1:
        continue
      # concrete datasets and derived views (subset of / slice of a larger dataset, subset over SQLite)
      cfgs.append(('get', ('mem', 'sql', 'subset', 'sqlsub', 'slice', 'memstr', 'subsetdup')[len(cfgs) % 7], n, cohort))
  cfgs += [('stream', 'mem', 6, 2), ('stream', 'slice', 6, 3), ('stream', 'subset', 3, 1), ('stream', 'sqlsub', 6, 3), ('stream', 'sql', 10, 4)]
  if not big:
    cfgs = cfgs[::2] + cfgs[-2:]
  # streaming: cohorts that straddle the passes of the repeating shuffled stream (population not a multiple of the cohort
  # size; the same client may then occur twice in a cohort), several stream seeds / buffer sizes each
  for _ in range(4 if big else 2):
    cfgs += [('stream', 'mem', 3, 2), ('stream', 'memstr', 5, 3), ('stream', 'sql', 10, 4)]
  cfgs.append(('get', 'memstr', 6, 3))
  cfgs.append(('get', 'subsetdup', 3, 2))
  cfgs.append(('stream', 'subset', 5, 3))
  cfgs.append(('get', 'mem', 70000, 3))       # a large population (more than 2^16 clients)
  per_cfg = (len(get_h) // 4) if big else 60
  trs = []
  intern_out, intern_key = Interner(), Interner()
  pending = []
  for ci, (kind, fdk, n, cohort) in enumerate(cfgs):
    seed = rng.randint(0, 10**6)
    if kind == 'stream' and ci % 3 == 0:
      seed = 0          # "all seeds": zero is a seed like any other
    buffer = rng.choice([1, 3, n + 2])
    if kind == 'stream' and fdk == 'mem' and n % cohort != 0 and n <= 5 and ci % 3 != 0:
      # a straddling configuration whose stream really puts one client twice into an early cohort (searched for, not hoped for)
      fd_s, _ = c13_worker.build_fd(fedjax, 'mem', IDS[:n])
      for cand in range(seed % 1000, seed % 1000 + 80):
        it_s = fd_s.shuffled_clients(buffer_size=buffer, seed=cand)
        firsts = [next(it_s)[0] for _ in range(4 * cohort)]
        if any(len(set(firsts[k * cohort:(k + 1) * cohort])) < cohort for k in range(4)):
          seed = cand
          break
    pool = get_h if kind == 'get' else str_h
    hists = [pool[(ci * 131 + j) % len(pool)] for j in range(min(per_cfg if n <= 1000 else 15, len(pool)))]
    # plus longer random histories
    for _ in range(20 if big else 6):
      h = []
      for _ in range(rng.randint(5, 10)):
        if kind == 'get':
          h.append(rng.choice([{'op': 'sample'}, {'op': 'sample'}, {'op': 'set_round', 'r': rng.randint(0, 6)},
                               {'op': 'new', 'r': rng.randint(0, 6)}, {'op': 'sample_fail'}]))
        else:
          h.append(rng.choice([{'op': 'sample'}, {'op': 'sample'}, {'op': 'new', 'r': rng.randint(0, 4)}]))
      hists.append(h)
    ops = []
    for h in hists:
      ops.append({'op': 'new', 'r': 0})
      ops.extend({k: v for k, v in o.items() if k in ('op', 'r')} for o in h)
    ids_n = IDS[:n] if n <= len(IDS) else [b'%06d' % i_ for i_ in range(n)]
    job = {'kind': kind, 'fd_kind': fdk, 'ids': [c.hex() for c in ids_n], 'path': paths.get(n), 'cohort': cohort,
           'seed': seed, 'buffer': buffer, 'ops': ops}
    seeds = [0, 1, 4242] if (ci % 2 == 0 or big) else [0, 7]
    if n > 1000:
      seeds = [0]
    # the second execution of every configuration has a second sampler (other cohort size, other seed) sampling alongside
    pending.append((ci, kind, cohort, fdk, n, seed, buffer, hists, [(hs, dict(job, noise=(si == 1))) for si, hs in enumerate(seeds)]))
  import concurrent.futures as cf
  with cf.ThreadPoolExecutor(max_workers=12) as ex:
    futs = {}
    for item in pending:
      for hs, job in item[8]:
        futs[(item[0], hs)] = ex.submit(run_worker, job, hs)
    results = {k: f.result() for k, f in futs.items()}
  for (ci, kind, cohort, fdk, n, seed, buffer, nh, jobs) in pending:
    events = []
    for hs, _ in jobs:
      evs = results[(ci, hs)]
      for e in evs:
        if e['e'] == 'Sample':
          e['out'] = intern_out((ci, e.pop('digest')))
          e['keys'] = [intern_key(k) for k in e['keys']]
          e.pop('ids')
      events.extend(evs)
    events.append({'e': 'End'})
    trs.append({'kind': kind, 'cohort': cohort, 'events': events,
                'meta': {'cfg': dict(kind=kind, dataset=fdk, clients=n, cohort=cohort, seed=seed, buffer=buffer), 'histories': len(nh)}})
    for h in nh:
      rounds = [o for o in h if o['op'] == 'sample']
      ctx.case(key=(kind, fdk, n, cohort, seed, repr(h)), nontrivial=len(rounds) >= 2 and any(o['op'] != 'sample' for o in h))
    ctx.trace_ok(len(nh))
  # constants: Cohort differs per trace -> one TLC run per cohort value
  by_cohort = {}
  for t in trs:
    by_cohort.setdefault(t['cohort'], []).append(t)
  for cohort, ts in sorted(by_cohort.items()):
    consts = dict(MaxRound=99, MaxOps=0, Cohort=cohort, Stateless=True, SkipExact=True)
    verdicts, _ = vtraces.validate_batch(ctx, 'SamplerTrace', ts, consts, f'T{cohort}')
    for t, v in zip(ts, verdicts):
      if v.ok:
        continue
      cfg = t['meta']['cfg']
      if v.kind == 'violated':
        ctx.violation(f'trace:{v.inv}:{cfg["kind"]}', f'real sampler violates {v.inv} for {cfg} at event #{v.at} '
                      f'{ {k: x for k, x in v.event.items() if k != "keys"} } (spec round, rounds with conflicting outputs: {v.state})',
                      replay={'cfg': cfg, 'events': t['events'][max(0, v.at - 12):v.at + 1]})
      else:
        ctx.violation(f'trace:rejected@{v.event["e"]}:{cfg["kind"]}', f'real sampler run is not a behaviour of Sampler for {cfg}: '
                      f'event #{v.at} { {k: x for k, x in v.event.items() if k != "keys"} } in spec state {v.state}',
                      replay={'cfg': cfg, 'events': t['events'][max(0, v.at - 12):v.at + 1]})
  ctx.leg('R', behaviours=len(cases))
  ctx.leg('T', configurations=len(trs), events=sum(len(t['events']) for t in trs))
  ctx.sample({'cfg': trs[0]['meta']['cfg'], 'events': [{k: x for k, x in e.items()} for e in trs[0]['events'][:12]]})

  # datasets that come and go in one process (cross-validation folds, sweeps): a sampler over a NEW dataset object that the
  # interpreter placed at the address of a dropped one (observed through id(), counted) draws from the new dataset's clients,
  # and draws what a sampler over a dataset that was never dropped draws
  import fedjax  # pylint: disable=g-import-not-at-top
  reused, prev_id, bad_fold = 0, None, None
  keep, wants, datas = [], [], []
  for fold in range(24):
    ids_f = [b'fold%02d-%d' % (fold, j) for j in range(6)]
    datas.append({c: {'x': np.arange(j + 1) + fold} for j, c in enumerate(ids_f)})
    keep.append(fedjax.InMemoryFederatedData(datas[-1]))
    wants.append([c for c, _, _ in fedjax.client_samplers.UniformGetClientSampler(keep[-1], 3, seed=17, start_round_num=2).sample()])
  for fold in range(24):
    # (nothing else is allocated between dropping one dataset and building the next)
    fd_f = fedjax.InMemoryFederatedData(datas[fold])
    reused += (id(fd_f) == prev_id)
    prev_id = id(fd_f)
    try:
      got = [c for c, _, _ in fedjax.client_samplers.UniformGetClientSampler(fd_f, 3, seed=17, start_round_num=2).sample()]
    except Exception as ex:  # pylint: disable=broad-except
      got = f'{type(ex).__name__}: {str(ex)[:80]}'
    if got != wants[fold] and bad_fold is None:
      bad_fold = (fold, got, wants[fold])
    del fd_f
  ctx.case(key=('datasets-come-and-go',), nontrivial=reused > 0)
  if bad_fold:
    ctx.violation('sampler-over-a-new-dataset-object', f'fold {bad_fold[0]}: a sampler over a freshly built dataset (seed 17, round 2) returns {bad_fold[1]}, a sampler over an equal '
                  f'dataset that was kept alive returns {bad_fold[2]} ({reused} of 24 datasets were placed at the address of the one dropped before)', replay={'fold': bad_fold[0]})

  # binding control
  import copy
  import shutil
  bad = copy.deepcopy(trs[0])
  samples = [e for e in bad['events'] if e['e'] == 'Sample']
  samples[-1]['out'] = 10**6
  sub = type(ctx)(ctx.pid + '_ctl', ctx.tier, ctx.seed)
  vs, _ = vtraces.validate_batch(sub, 'SamplerTrace', [bad], dict(MaxRound=99, MaxOps=0, Cohort=bad['cohort'], Stateless=True, SkipExact=True), 'ctl')
  ok = not vs[0].ok
  ctx.controls.append({'run': 'binding: one sample replaced by a foreign value', 'expected_violation': 'PureInRound', 'got': repr(vs[0])[:200], 'ok': ok})
  shutil.rmtree(sub.scratch, ignore_errors=True)
  if not ok:
    raise Machinery('binding control: corrupted trace accepted')
