"""Runs real federated averaging on exact-island instances under the pmap backend with N forced host devices."""
import json
import os
import sys


def main():
  job = json.load(sys.stdin)
  os.environ['XLA_FLAGS'] = '--xla_force_host_platform_device_count=%d' % job['devices']
  sys.path.insert(0, job['verif'])
  import fedjax  # pylint: disable=g-import-not-at-top
  from vf.props import c01  # pylint: disable=g-import-not-at-top
  out = []
  for item in job['items']:
    out.append(c01.run_real(fedjax, item['case'], item['order'], 'pmap', loss=item.get('loss'), keys_seed=item.get('keys_seed', 0)))
  json.dump(out, sys.stdout)


if __name__ == '__main__':
  main()
