"""C12 - degenerate hyper-parameters reduce every algorithm to FedAvg.

Leg M: TLC on FedRound.tla with a proximal weight: the accumulator machine equals the definition "FedAvg on the loss
       augmented with the proximal penalty toward the ROUND's server parameters"; deviation (penalty toward the initial
       parameters) as sensitivity control.
Leg R: for random exact-island instances TLC (FedRoundOracle) computes the exact FedAvg / FedProx(mu) / full-batch-step
       parameters after every round; the real fed_prox(0), hyp_cluster(1 cluster), mime_lite(SGD, server lr 1), apfl
       (global model), fed_prox(mu > 0) and mime(SGD, one local step) are run for 1-3 rounds and compared with them
       (bit-exact on dyadic instances, 1e-5 otherwise).
"""
import numpy as np

from vf import algs
from vf import island
from vf.core import Machinery
from vf.props import c01
from vf.tlc import Raw, tla_value

INVS = ['EqualsDefinition', 'OneDiagPerClient', 'EmptyRoundFixpoint', 'NoNaN']


def keyed_leg(ctx, fedjax, cases):
  """The reductions with a loss that USES its random key (integer noise, exact island): the keys FedAvg draws with at every
  local step are recorded (debug backend), TLC computes the exact FedAvg / FedProx(mu) parameters for those draws, and
  FedProx(0) and FedProx(mu) must reach them - i.e. follow FedAvg's key schedule ("0 weight is FedAvg")."""
  import jax  # pylint: disable=g-import-not-at-top
  rng = ctx.rng
  R = island.R
  picked = [c for c in cases if max(len(s) for s in c['inst']['stream']) >= 2]
  picked = ([c for c in picked if c['pool_a']][: (8 if ctx.thorough else 3)] + [c for c in picked if not c['pool_a']][: (8 if ctx.thorough else 3)])
  variants = []
  for ci, c in enumerate(picked):
    inst = c['inst']
    seed = 500 + ci
    log = []
    rec = c01.run_real(fedjax, c, 'listed', 'debug', loss='int_noise', keys_seed=seed, key_log=log)
    if rec['error']:
      ctx.violation('keys:fed_avg:exception', f'{rec["error"]} with the key-dependent loss on {inst}', replay={'instance': inst})
      continue
    noise = [[[0] * max(1, len(s)) for s in inst['stream']] for _ in range(inst['rounds'])]
    pos = 0
    for r, cohort in enumerate(inst['cohorts']):
      for cl in cohort:
        for i in range(len(inst['stream'][cl - 1])):
          if pos < len(log):
            noise[r][cl - 1][i] = int(island.int_noise_of(np.array(log[pos], np.uint32)))
          pos += 1
    if pos != len(log):
      continue    # (C01 reports a wrong number of gradient calls)
    kinst = dict(inst, noise=noise, mime_slr=R(1))
    mu = rng.choice([0.25, 0.5])
    # (HypCluster derives separate selection and training keys from the client's key by design, MimeLite and APFL have
    # their own client loops: with a key-using loss they equal FedAvg in distribution only, which is not demanded here)
    trio = [('fed_prox', kinst, {'mu': 0.0}), ('fed_prox', dict(kinst, mu=R(mu)), {'mu': mu})]
    if not c['pool_a']:
      # MimeLite with plain SGD and server rate 1 runs the same client loop as FedAvg: also with a key-using loss
      trio.append(('mime_lite', dict(kinst, sopt=island.opt_spec('sgd', 1)), {'server_lr': 1.0}))
    for name, oinst, kw in trio:
      if island.within_island(oinst):
        variants.append((c, seed, name, oinst, kw))
  if not variants:
    return
  expected = island.oracle(ctx, [v[3] for v in variants], 'K')
  n_ok = 0
  for (c, seed, name, oinst, kw), exp in zip(variants, expected):
    label = f'{name}({", ".join(f"{k}={v}" for k, v in kw.items())}) with a key-dependent loss'
    rec = algs.run_rounds(fedjax, name, c, order='listed', keys_seed=seed, loss=island.int_noise_loss, **kw)
    ctx.case(key=('K', label, repr(oinst)), nontrivial=True)
    if rec['error']:
      ctx.violation(f'keys:{name}:exception', f'{label}: {rec["error"]} on {oinst}', replay={'instance': oinst, 'hparams': c['h'], 'tb': rec.get('tb')})
      continue
    bad = None
    for r in range(oinst['rounds']):
      want_p = [float(island.frac(x)) for x in exp['rounds'][r]]
      if not np.allclose(rec['rounds'][r], want_p, rtol=1e-5, atol=1e-5):
        bad = f'round {r + 1}: {label} gives {rec["rounds"][r]}; FedAvg{" on the proximal loss" if kw.get("mu") else ""} with the keys it draws gives {want_p}'
        break
    if bad:
      ctx.violation(f'keys:{name}{"(mu>0)" if kw.get("mu") else ""}:params', f'{bad} (eta per step={oinst["noise"]}, hparams={c["h"]}, instance={c["inst"]})',
                    replay={'instance': oinst, 'hparams': c['h'], 'algorithm': label})
    else:
      n_ok += 1
  ctx.trace_ok(n_ok)
  ctx.leg('K', keyed_runs=len(variants))


def run(ctx):
  import fedjax  # pylint: disable=g-import-not-at-top
  big = ctx.thorough
  rng = ctx.rng
  R = island.R
  ctx.rule = ('case = (exact-island instance, algorithm with degenerate hyper-parameters); non-trivial = >= 2 clients with examples '
              'and >= 2 rounds or >= 2 local steps; distinct by instance and algorithm')
  ctx.assumptions += ['same exact island as C01 (quadratic loss, integer data, SGD with dyadic rates, loss ignores its key)']
  # ---- leg M
  insts = c01.fixed_instances()
  prox = [dict(i, mu=R(0.5), copt=island.opt_spec('sgd', 0.5)) for i in insts[:2]]
  mc = '---- MODULE MC_FedRound ----\nEXTENDS FedRound\nInstDef == {%s}\n====\n' % ', '.join(tla_value(island.complete(i)) for i in prox)
  consts = dict(Instances=Raw('<- InstDef'), **island.TOG)
  ctx.model_check('MC_FedRound', name='FedRound_prox_M', constants=consts, invariants=INVS, extra_modules={'MC_FedRound': mc})
  ctx.model_check('MC_FedRound', expect='EqualsDefinition', name='FedRound_ctl_ProxOnRound', constants=dict(consts, ProxOnRound=False), invariants=INVS,
                  extra_modules={'MC_FedRound': mc}, coverage=False)
  ctx.require_actions(['ClientStep', 'FinishClient', 'ServerUpdate'])

  # ---- leg R
  cases = []
  want = 90 if big else 24
  while len(cases) < want:
    # pool A (every second instance): any client / server optimizer (SGD or momentum); pool B: plain SGD clients (MimeLite)
    pool_a = len(cases) % 2 == 0
    c = island.random_instance(rng, fedjax, leaves=rng.choice([1, 2]), dyadic=rng.random() < .7, allow_momentum=pool_a, max_clients=4,
                               rounds=rng.choice([2, 3]) if pool_a else None, dups=len(cases) % 3 == 0)
    if c is None:
      continue
    if not pool_a:
      c['inst']['sopt'] = island.opt_spec('sgd', rng.choice([1, 0.5]))
    c['pool_a'] = pool_a
    cases.append(c)
  # single-local-step instances for Mime
  mime_cases = []
  while len(mime_cases) < (30 if big else 8):
    c = island.random_instance(rng, fedjax, leaves=rng.choice([1, 2]), dyadic=True, allow_momentum=False, max_clients=4,
                               dups=len(mime_cases) % 2 == 0, rounds=rng.choice([2, 3]))
    if c is None:
      continue
    h = dict(c['h'], steps=1, epochs=1, drop=False)   # every client with examples takes exactly one local step
    dss = island.datasets(fedjax, c['inst']['data'])
    c['h'] = h
    c['inst']['stream'] = island.real_streams(fedjax, dss, island.hparams(fedjax, h))
    c['inst']['mime_slr'] = R(rng.choice([1, 0.5, 2]))
    c['exact'] = False
    mime_cases.append(c)
  variants = []   # (case index or ('m', idx), algorithm name, oracle instance, kwargs, which output)
  for ci, c in enumerate(cases):
    base = dict(c['inst'], mime_slr=R(1))
    variants.append((c, 'fed_avg', base, {}, 'rounds'))
    variants.append((c, 'fed_prox', base, {'mu': 0.0}, 'rounds'))
    variants.append((c, 'hyp_cluster', base, {'clusters': 1}, 'rounds'))
    variants.append((c, 'apfl', base, {'coef': rng.choice([0.25, 0.5])}, 'rounds'))
    if not c['pool_a']:
      variants.append((c, 'mime_lite', dict(base, sopt=island.opt_spec('sgd', 1)), {'server_lr': 1.0}, 'rounds'))
    mu = rng.choice([0.25, 0.5, 1])
    if island.within_island(dict(base, mu=R(mu))):
      variants.append((c, 'fed_prox', dict(base, mu=R(mu)), {'mu': mu}, 'rounds'))
    # the same reductions with an L2 regulariser lambda/2 |w|^2 handed to the algorithms that take one
    lam = rng.choice([0.25, 0.5])
    rbase = dict(base, reg=R(lam))
    if ci % 2 == 0 and island.within_island(rbase):
      variants.append((c, 'fed_avg', rbase, {'reg': lam}, 'rounds'))
      variants.append((c, 'hyp_cluster', rbase, {'clusters': 1, 'reg': lam}, 'rounds'))
      if not c['pool_a']:
        variants.append((c, 'mime_lite', dict(rbase, sopt=island.opt_spec('sgd', 1)), {'server_lr': 1.0, 'reg': lam}, 'rounds'))
  for mi, c in enumerate(mime_cases):
    variants.append((c, 'mime', dict(c['inst']), {'server_lr': float(island.frac(c['inst']['mime_slr']))}, 'mime'))
    if mi % 2 == 0:     # with an L2 regulariser: it enters the full-batch step exactly once
      lam_m = rng.choice([0.25, 0.5])
      if not island.within_island(dict(c['inst'], reg=R(lam_m))):
        continue      # (the oracle also computes the regularised FedAvg rounds of the instance: keep TLC's integers in range)
      variants.append((c, 'mime', dict(c['inst'], reg=R(lam_m)), {'server_lr': float(island.frac(c['inst']['mime_slr'])), 'reg': lam_m}, 'mime'))
  # a fixed instance with a round without any example under a stateful server optimizer (see known_findings.json)
  fx = {'data': [[], [[2]]], 'init': [R(-2)], 'copt': island.opt_spec('sgd', 1), 'sopt': island.opt_spec('mom', 0.5, 0.5), 'mu': R(0), 'rounds': 3,
        'cohorts': [[2, 1], [1], [1, 2]]}
  fxh = {'bs': 2, 'epochs': 1, 'steps': None, 'drop': False, 'seed': 1, 'skip': True}
  fx['stream'] = island.real_streams(fedjax, island.datasets(fedjax, fx['data']), island.hparams(fedjax, fxh))
  fxc = {'inst': fx, 'h': fxh, 'exact': False, 'pool_a': True}
  for nm, kw in (('fed_avg', {}), ('fed_prox', {'mu': 0.0}), ('hyp_cluster', {'clusters': 1}), ('apfl', {'coef': 0.5})):
    variants.append((fxc, nm, dict(fx, mime_slr=R(1)), kw, 'rounds'))
  # a fixed instance whose cohorts list clients with fewer batches BEFORE clients with more (1, 3 and 2 local steps):
  # backends that re-order clients by batch count must still pair every client with its own weight
  fy = {'data': [[[1, 0]], [[2, 1], [3, -1], [0, 2], [1, 1], [4, 4]], [[5, 2], [0, 0], [2, 2]]], 'init': [R(0), R(1)], 'copt': island.opt_spec('sgd', 0.25),
        'sopt': island.opt_spec('sgd', 1), 'mu': R(0), 'rounds': 2, 'cohorts': [[1, 2, 3], [3, 1, 2]]}
  fyh = {'bs': 2, 'epochs': 1, 'steps': None, 'drop': False, 'seed': 3, 'skip': False}
  fy['stream'] = island.real_streams(fedjax, island.datasets(fedjax, fy['data']), island.hparams(fedjax, fyh))
  fyc = {'inst': fy, 'h': fyh, 'exact': False, 'pool_a': False}
  for nm, kw in (('fed_avg', {}), ('fed_prox', {'mu': 0.0}), ('hyp_cluster', {'clusters': 1}), ('apfl', {'coef': 0.25}), ('mime_lite', {'server_lr': 1.0}),
                 ('fed_prox', {'mu': 0.5})):
    for _ in range(3):     # (the backend rotates with the position in this list: each algorithm meets jit, debug and pmap)
      variants.append((fyc, nm, dict(fy, mime_slr=R(1), mu=R(kw.get('mu', 0.0))), kw, 'rounds'))
  # a fixed instance with drop_remainder=True and a client that has examples but fewer than one batch: it takes no step,
  # its zero delta still enters the mean with the weight of its examples
  fw = {'data': [[[1, 0]], [[2, 1], [3, -1], [0, 2]], [[4, 4], [5, 2]]], 'init': [R(0), R(1)], 'copt': island.opt_spec('sgd', 0.5), 'sopt': island.opt_spec('sgd', 1),
        'mu': R(0), 'rounds': 2, 'cohorts': [[1, 2, 3], [2, 1]]}
  fwh = {'bs': 2, 'epochs': 1, 'steps': None, 'drop': True, 'seed': 11, 'skip': False}
  fw['stream'] = island.real_streams(fedjax, island.datasets(fedjax, fw['data']), island.hparams(fedjax, fwh))
  fwc = {'inst': fw, 'h': fwh, 'exact': False, 'pool_a': False}
  for nm, kw in (('fed_avg', {}), ('fed_prox', {'mu': 0.0}), ('hyp_cluster', {'clusters': 1}), ('apfl', {'coef': 0.5}), ('mime_lite', {'server_lr': 1.0}),
                 ('mime_lite', {'server_lr': 1.0}), ('mime_lite', {'server_lr': 1.0})):
    variants.append((fwc, nm, dict(fw, mime_slr=R(1)), kw, 'rounds'))
  # a fixed instance in which the DATA of a client changes between rounds (same id, same number of examples): in the
  # specification these are two clients, in the run they go by one id; every round uses the data it is handed
  fz = {'data': [[[1, 0], [2, 1]], [[-3, 2], [0, -1]], [[4, 4]]], 'init': [R(0), R(1)], 'copt': island.opt_spec('sgd', 0.5), 'sopt': island.opt_spec('sgd', 1),
        'mu': R(0), 'rounds': 3, 'cohorts': [[1, 3], [2, 3], [1]]}
  fzh = {'bs': 2, 'epochs': 1, 'steps': 1, 'drop': False, 'seed': 7, 'skip': True}
  fz['stream'] = island.real_streams(fedjax, island.datasets(fedjax, fz['data']), island.hparams(fedjax, fzh))
  fzc = {'inst': fz, 'h': fzh, 'exact': False, 'pool_a': False, 'id_alias': {2: 1}}
  for nm, kw, which_ in (('fed_avg', {}, 'rounds'), ('hyp_cluster', {'clusters': 1}, 'rounds'), ('mime_lite', {'server_lr': 1.0}, 'rounds'),
                         ('mime', {'server_lr': 1.0}, 'mime'), ('mime', {'server_lr': 1.0}, 'mime'), ('mime', {'server_lr': 1.0}, 'mime')):
    variants.append((fzc, nm, dict(fz, mime_slr=R(1)), kw, which_))
  expected = island.oracle(ctx, [v[2] for v in variants], 'R')
  n_ok = 0
  skip_checked = []
  for vi, ((c, name, oinst, kw, which), exp) in enumerate(zip(variants, expected)):
    # every for_each_client backend (the pmap backend re-orders clients by batch count, also on one device)
    backend = (None, 'debug', 'pmap')[vi % 3]
    if name in ('mime_lite', 'mime') and vi % 2 == 0:
      backend = 'pmap'      # these keep per-client bookkeeping next to the for_each_client loop
    rec = algs.run_rounds(fedjax, name, c, order='listed' if rng.random() < .5 else 'reversed', backend=backend, typed_keys=(vi % 4 == 1), **kw)

    inst = c['inst']
    busy = sum(1 for d in inst['data'] if d) >= 2 and (inst['rounds'] >= 2 or max(len(s) for s in inst['stream']) >= 2)
    label = f'{name}({", ".join(f"{k}={v}" for k, v in kw.items())})'
    ctx.case(key=(label, repr(oinst)), nontrivial=busy)
    cfg = {'algorithm': label, 'instance': oinst, 'hparams': c['h'], 'backend': backend or 'jit', 'typed_client_keys': vi % 4 == 1}
    if rec['error']:
      ctx.violation(f'replay:{name}:exception:{rec["error"].split(":")[0]}', f'{label}: {rec["error"]} on instance {oinst}', replay=dict(cfg, tb=rec.get('tb')))
      continue
    bad = None
    for r in range(inst['rounds']):
      want_p = [float(island.frac(x)) for x in exp[which][r]]
      got_p = rec['rounds'][r]
      dy = all(island.is_pow2(x[1]) and abs(x[0]) < 2**22 for rr in exp[which][:r + 1] for x in rr)
      exact = dy and c['exact'] and name in ('fed_avg', 'fed_prox', 'hyp_cluster', 'apfl') and kw.get('mu', 0.0) == 0.0
      okp = all(np.float32(g) == np.float32(w) for g, w in zip(got_p, want_p)) if exact else np.allclose(got_p, want_p, rtol=1e-5, atol=1e-5)
      if not okp or any(np.isnan(got_p)):
        bad = f'round {r + 1}: {label} gives {got_p}, the reduction demands {[str(island.frac(x)) for x in exp[which][r]]} = {want_p}'
        break
    if bad:
      key = f'replay:{name}{"(mu>0)" if kw.get("mu") else ""}:params'
      empty_round = any(sum(len(inst['data'][cl - 1]) for cl in co) == 0 for co in inst['cohorts'])
      if name == 'hyp_cluster' and empty_round and inst['sopt']['kind'] != 'sgd':
        # is the run EXACTLY what the specification gives when a round without examples is skipped altogether?
        alt = island.oracle(ctx, [oinst], f'skip{len(skip_checked)}', extra_consts={'ApplyOnEmpty': False})[0]
        skip_checked.append(1)
        if all(np.allclose(rec['rounds'][r], [float(island.frac(x)) for x in alt['rounds'][r]], rtol=1e-5, atol=1e-5) for r in range(inst['rounds'])):
          key = 'hyp-cluster-skips-the-server-step-of-a-round-without-examples'
      ctx.violation(key, f'{bad} (backend={backend or "jit"}, hparams={c["h"]}, instance={oinst})', replay=cfg)
    else:
      n_ok += 1
  ctx.trace_ok(n_ok)
  ctx.leg('R', instances=len(cases) + len(mime_cases), algorithm_runs=len(variants))
  keyed_leg(ctx, fedjax, cases)
  ctx.sample({'algorithm': 'mime', 'instance': variants[-1][2], 'expected': [[str(island.frac(x)) for x in rr] for rr in expected[-1]['mime']]})
