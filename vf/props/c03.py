"""C03 - sequential batching is an exact, order-preserving partition.

Leg M: TLC checks SeqBatch.tla (algorithmic model of the slicing loop and the bucket loop) against the declarative
       definitions for all (N, batch size, buckets, mode, drop) in the bounds, plus sensitivity controls.
Leg R: every final state TLC reaches is emitted and replayed into the real ClientDataset.batch/padded_batch
       (several feature sets, dtypes, trailing shapes and preprocessor chains); ids and masks compared exactly.
Leg T: random larger configurations of the real code recorded as traces and validated by TLC (SeqBatchTrace).
"""
import itertools

import numpy as np

from vf import bat
from vf import traces as vtraces
from vf.core import Machinery

INVS = ['PartitionInOrder', 'AllButLastFull', 'DropOnlyIncomplete', 'MaskIsPrefix', 'FinalSizeRule', 'NoEmptyBatch',
        'BatchCount']


def real_run(fedjax, n, bs, k, mode, drop, variant, chain, sliced=0):
  """Runs the real view twice; returns (batches as (ids, mask, padzero, feat_ok), same_again, dataset_unchanged).

  sliced: 0 = a dataset built directly; 1, 2 = the same n examples obtained by slicing a larger dataset (once / twice)."""
  raw = bat.raw_examples(n, variant)
  ref = bat.apply_chain(chain, raw)
  # the chain as callers may pass it: a tuple, a list, or a one-shot iterable (generator / map)
  fns = bat.CHAINS[chain]
  if (n + bs + sliced) % 5 == 4:
    pre = fedjax.BatchPreprocessor()       # ... or built up one function at a time
    for f_ in fns:
      pre = pre.append(f_)
  else:
    pre = fedjax.BatchPreprocessor((fns, list(fns), (f for f in fns), map(lambda f: f, fns))[(n + bs + sliced) % 5])
  if sliced:
    parent = fedjax.ClientDataset(bat.raw_examples(n + 5, variant, offset=-2), pre)     # ids -1 .. n+3
    ds = parent[2:n + 2] if sliced == 1 else parent[1:][:n + 1][1:]
    raw = ds.raw_examples
  else:
    ds = fedjax.ClientDataset(raw, pre)
  before = bat.checksum(raw)
  style = (n + 2 * bs + k) % 3     # hyper-parameter object, keyword arguments only, or an object overridden by keywords
  # sizes are whatever integers the caller has at hand: Python ints or NumPy integer scalars
  bs_py, k_py = bs, k
  bs = (bs, np.int64(bs), np.int32(bs))[(n + k) % 3]
  k = (k, np.int32(k), np.int64(k))[(n + bs_py) % 3] if k is not None else k
  if mode == 'padded':
    if style == 0:
      view = ds.padded_batch(fedjax.PaddedBatchHParams(batch_size=bs, num_batch_size_buckets=k))
    elif style == 1:
      view = ds.padded_batch(batch_size=bs, num_batch_size_buckets=k)
    else:
      view = ds.padded_batch(fedjax.PaddedBatchHParams(batch_size=bs + 3, num_batch_size_buckets=k + 1), batch_size=bs, num_batch_size_buckets=k)
  else:
    if style == 0:
      view = ds.batch(fedjax.BatchHParams(batch_size=bs, drop_remainder=drop))
    elif style == 1:
      view = ds.batch(batch_size=bs, drop_remainder=drop)
    else:
      view = ds.batch(fedjax.BatchHParams(batch_size=bs + 1, drop_remainder=not drop), batch_size=bs, drop_remainder=drop)
  first = [bat.check_batch(b, ref) for b in view]
  mid = bat.checksum(ds.raw_examples)
  second = [bat.check_batch(b, ref) for b in view]
  # two iterators over the one view alive at once (lock step), and an iterator resumed after another full pass
  pairs = [(bat.check_batch(a, ref), bat.check_batch(b, ref)) for a, b in zip(view, view)]
  it_a = iter(view)
  head_a = [bat.check_batch(b, ref) for b in itertools.islice(it_a, 1)]
  other = [bat.check_batch(b, ref) for b in view]
  tail_a = [bat.check_batch(b, ref) for b in it_a]
  if [p_[0] for p_ in pairs] != first or [p_[1] for p_ in pairs] != first or other != first or head_a + tail_a != first:
    second = second + [('interleaved iterators disagree',)]
  after = bat.checksum(ds.raw_examples)
  return first, first == second, (before == mid == after)


def to_events(batches, same, unchanged):
  ev = [{'e': 'Batch', 'ids': b[0], 'mask': b[1], 'padzero': b[2], 'feat_ok': b[3]} for b in batches]
  ev.append({'e': 'End', 'same_again': bool(same), 'dataset_unchanged': bool(unchanged)})
  return ev


def run(ctx):
  import fedjax  # pylint: disable=g-import-not-at-top
  ctx.rule = ('case = (N, batch_size, buckets, mode, drop_remainder) x (feature set, preprocessor chain); leg R '
              'enumerates all cases within TLC bounds, leg T draws larger ones; non-trivial = N > 0 and the last '
              'batch is incomplete or N >= 2*batch_size; distinct by the 5-tuple')
  ctx.assumptions += ['feature values/dtypes are compared by the driver projection (ids decoded from the real arrays); '
                      'TLC decides structure: ids, masks, sizes, order']
  big = ctx.thorough
  consts = dict(MaxN=24 if big else 14, MaxBS=12 if big else 8, MaxK=6 if big else 4, StrictFull=True, HalveFloor=True, ShortOnly=False)
  r = ctx.model_check('SeqBatch', name='SeqBatch_M', constants=consts, invariants=INVS + ['Emit'], workers=1)
  for tog, inv in (('StrictFull', 'PartitionInOrder'), ('HalveFloor', 'FinalSizeRule')):
    c = dict(MaxN=12, MaxBS=7, MaxK=4, StrictFull=True, HalveFloor=True, ShortOnly=False)
    c[tog] = False
    ctx.model_check('SeqBatch', expect=inv, name=f'SeqBatch_ctl_{tog}', constants=c, invariants=INVS, coverage=False)
  ctx.require_actions(['Pick', 'BucketStep', 'BucketDone', 'Slice', 'Done'])

  # ---- leg R: replay every emitted behaviour into the real code
  # the bucket rule on its own, for batch sizes up to 33 (48) and up to 7 buckets: datasets smaller than the batch size
  r2 = ctx.model_check('SeqBatch', name='SeqBatch_M_short', constants=dict(consts, MaxN=32 if not big else 47, MaxBS=33 if not big else 48, MaxK=7, ShortOnly=True),
                       invariants=INVS + ['Emit'], workers=1)
  cases = r.json
  if not cases:
    raise Machinery('generator emitted no behaviour')
  short = r2.json
  for c in short:
    c['short'] = True
  cases = cases + short
  nchains = len(bat.CHAINS)
  replayed = 0
  for ci, c in enumerate(cases):
    combos = [(bat.FEATURE_SETS[ci % 2], ci % nchains), (bat.FEATURE_SETS[(ci + 1) % 2], (ci // 2 + 3) % nchains)]
    if big:
      combos = [(v, ch) for v in bat.FEATURE_SETS for ch in bat.CHAINS]
    if c.get('short'):
      combos = combos[:1]
    for variant, chain in combos:
      got, same, unchanged = real_run(fedjax, c['n'], c['bs'], c['k'], c['mode'], c['drop'], variant, chain, sliced=(ci + chain) % 3)
      exp = [(list(b['ids']), list(b['mask'])) for b in c['out']]
      act = [(g[0], g[1]) for g in got]
      key = (c['n'], c['bs'], c['k'], c['mode'], c['drop'])
      rem = c['n'] % c['bs']
      ctx.case(key=key, nontrivial=c['n'] > 0 and (rem != 0 or c['n'] >= 2 * c['bs']))
      replayed += 1
      cfg = dict(n=c['n'], batch_size=c['bs'], buckets=c['k'], mode=c['mode'], drop=c['drop'], features=variant,
                 chain=chain, sliced=(ci + chain) % 3)
      if exp != act:
        ctx.violation(f'replay:{c["mode"]}:batches', f'real batches differ from the specification for {cfg}: '
                      f'expected {exp} got {act}', replay={'cfg': cfg, 'expected': exp, 'actual': act})
      elif not all(g[2] for g in got):
        ctx.violation(f'replay:{c["mode"]}:padzero', f'padded rows are not all zero for {cfg}', replay={'cfg': cfg})
      elif not all(g[3] for g in got):
        ctx.violation(f'replay:{c["mode"]}:features', f'a feature of a real row is not the preprocessed example '
                      f'(value, dtype or trailing shape) for {cfg}', replay={'cfg': cfg})
      elif not same:
        ctx.violation(f'replay:{c["mode"]}:reiterate', f'iterating the same view again gave different batches for {cfg}',
                      replay={'cfg': cfg})
      elif not unchanged:
        ctx.violation(f'replay:{c["mode"]}:mutated', f'iteration mutated the dataset for {cfg}', replay={'cfg': cfg})
  ctx.trace_ok(replayed)
  ctx.leg('R', behaviours=len(cases), replays=replayed)
  ctx.sample({'leg': 'R', 'case': cases[len(cases) // 2]})
  ctx.exhaustive = True

  # ---- leg T: larger random configurations of the real code, validated by TLC
  rng = ctx.rng
  ntr = 1500 if big else 250
  trs = []
  for i in range(ntr):
    mode = rng.choice(['padded', 'padded', 'batch'])
    n = rng.choice([0, 1, rng.randint(2, 60), rng.randint(2, 60)])
    bs = rng.choice([1, 2, rng.randint(1, 17), rng.randint(1, 17), n if n > 0 else 1, n + 1])
    k = rng.randint(1, 7) if mode == 'padded' else 1
    drop = rng.random() < .5 if mode == 'batch' else False
    variant, chain = rng.choice(bat.FEATURE_SETS), rng.choice(list(bat.CHAINS))
    got, same, unchanged = real_run(fedjax, n, bs, k, mode, drop, variant, chain)
    trs.append({'n': n, 'bs': bs, 'k': k, 'mode': mode, 'drop': drop, 'meta': {'features': variant, 'chain': chain},
                'events': to_events(got, same, unchanged)})
    ctx.case(key=(n, bs, k, mode, drop), nontrivial=n > 0 and (n % bs != 0 or n >= 2 * bs))
  consts_t = dict(MaxN=0, MaxBS=1, MaxK=1, StrictFull=True, HalveFloor=True, ShortOnly=False)
  verdicts, _ = vtraces.validate_batch(ctx, 'SeqBatchTrace', trs, consts_t, 'T')
  for t, v in zip(trs, verdicts):
    if v.ok:
      continue
    cfg = {kk: t[kk] for kk in ('n', 'bs', 'k', 'mode', 'drop')}
    cfg.update(t['meta'])
    if v.kind == 'violated':
      ctx.violation(f'trace:{v.inv}', f'real batches violate {v.inv} for {cfg}', replay={'cfg': cfg, 'trace': t})
    else:
      ctx.violation(f'trace:rejected@{v.event["e"]}', f'real run is not a behaviour of SeqBatch for {cfg}: event '
                    f'#{v.at} {v.event} in spec state {v.state}', replay={'cfg': cfg, 'trace': t})
  ctx.leg('T', traces=len(trs))
  ctx.sample({'leg': 'T', 'trace': trs[3]})

  # ---- binding control: a corrupted trace must be rejected
  import copy
  bad = copy.deepcopy(next(t for t in trs if t['n'] >= 3 and len(t['events']) >= 2))
  bad['events'][0]['ids'][0] = bad['events'][0]['ids'][0] + 1
  sub = type(ctx)(ctx.pid + '_ctl', ctx.tier, ctx.seed)
  vs, _ = vtraces.validate_batch(sub, 'SeqBatchTrace', [bad], consts_t, 'ctl')
  ok = not vs[0].ok
  ctx.controls.append({'run': 'binding: first id of first batch corrupted', 'expected_violation': 'rejected', 'got': repr(vs[0]), 'ok': ok})
  import shutil
  shutil.rmtree(sub.scratch, ignore_errors=True)
  if not ok:
    raise Machinery('binding control: corrupted trace accepted')
