"""C18 - the Walsh-Hadamard transform is exact; the structured rotation is invertible.

Leg M: TLC on WalshHadamard.tla: the code's shape loop + one einsum per axis equals the Sylvester closed form on every
       basis vector for every length 2^0..2^5 (2^6 thorough) and block size 2^1..2^6; in integers, the rotation
       satisfies |H D x|^2 = d |x|^2 and H(H D x) D = d x for every sign vector (sizes 1..9, non powers of two
       included).  A deviation (einsum on the wrong axis) is reported.
Leg R: TLC emits the Sylvester matrix columns for n <= 2^5; the real transform of the identity is compared with them
       for every valid block size, explicitly passed and defaulted; for larger n (to 2^12 quick, 2^14 thorough) the
       closed form - cross-checked against TLC's columns - is used.  The rotation is replayed on shapes of any rank and
       size, many keys and input scales, leaf-wise on trees.
"""
import numpy as np

from vf.core import Machinery

INVS = ['EqualsSylvester', 'ShapeIsFactorisation', 'RotationNorm', 'RotationInverse']


def sylvester(n):
  i = np.arange(n)
  pc = np.zeros((n, n), np.int64)
  x = i[:, None] & i[None, :]
  while np.any(x):
    pc += x & 1
    x >>= 1
  return np.where(pc % 2 == 0, 1, -1)


def run(ctx):
  import jax  # pylint: disable=g-import-not-at-top
  import jax.numpy as jnp  # pylint: disable=g-import-not-at-top
  from fedjax.aggregators import walsh_hadamard as wh  # pylint: disable=g-import-not-at-top
  big = ctx.thorough
  rng = ctx.rng
  ctx.rule = ('case = (length, block size passed explicitly or defaulted) for the transform; (shape, key, input scale) for the '
              'rotation; non-trivial = length that needs >= 2 einsum axes, resp. a size that is not a power of two or a rank != 1; '
              'distinct by these tuples')
  ctx.assumptions += ['explicit block sizes that give more than 6 einsum axes are replayed on the specification only (XLA:CPU compile time)',
                      'for n > 2^5 the Sylvester closed form is evaluated by the driver (cross-checked against the columns TLC emitted)',
                      'rank-0 inputs are outside the property as read here ("scalars-as-vectors" = shape (1,)); they are reported as information only']
  r = ctx.model_check('WalshHadamard', name='WHT_M_transform', constants=dict(MaxLogN=6 if big else 5, MaxLogB=6, PerAxis=True, Mode='transform'),
                      invariants=INVS + ['EmitMatrix'], workers=1, timeout=3000)
  ctx.model_check('WalshHadamard', name='WHT_M_rotation', constants=dict(MaxLogN=4 if big else 3, MaxLogB=2, PerAxis=True, Mode='rotation'), invariants=INVS,
                  timeout=3000)
  ctx.model_check('WalshHadamard', expect='EqualsSylvester', name='WHT_ctl_PerAxis', constants=dict(MaxLogN=4, MaxLogB=2, PerAxis=False, Mode='transform'),
                  invariants=INVS, coverage=False)
  ctx.require_actions(['ShapeStep', 'ShapeDone', 'EinsumAxis', 'Finish'])
  # TLC's columns: cross-check the driver's closed form, then use them / it as the oracle
  cols = {}
  for j in r.json:
    cols[(j['n'], j['j'])] = j['col']
  for (n, jc), col in cols.items():
    if list(sylvester(n)[:, jc]) != list(col):
      raise Machinery('driver closed form disagrees with the TLC-evaluated Sylvester column')

  # ---- leg R: the transform
  max_log = 14 if big else 12
  n_runs = 0
  for logn in range(0, max_log + 1):
    n = 2 ** logn
    H = sylvester(n) if logn <= (11 if big else 9) else None
    for small in [None] + [2 ** k for k in range(1, 9)]:
      # validity: the code refuses more than 8 axes
      axes = 0
      m = n
      if small is not None:
        while m > 1:
          axes += 1
          m //= small
        if axes + 1 >= 10:
          continue
        if axes > 6:
          continue   # XLA:CPU needs minutes to compile the 7- and 8-axis reshape/einsum chains (TLC covers them on the spec)
      cfg = dict(n=n, small_n=small)
      ctx.case(key=('wht', n, small), nontrivial=n > (small or 128))
      n_runs += 1
      try:
        if H is not None:
          eye = jnp.eye(n, dtype=jnp.float32)
          f = (lambda v: wh.walsh_hadamard_transform(v)) if small is None else (lambda v, s=small: wh.walsh_hadamard_transform(v, s))
          idx = list(range(n))
          got = np.asarray(jax.vmap(f)(eye))     # all basis vectors at once
          exp = H[idx, :].astype(np.float32)
          ok = np.array_equal(got, exp)
          detail = f'first differing column {idx[int(np.argmax(np.any(got != exp, axis=1)))]}' if not ok else ''
        else:
          v = np.zeros(n, np.float32)
          pos = [0, 1, n - 1, n // 3]
          v[pos] = [1, 2, -1, 3]
          f = (lambda u: wh.walsh_hadamard_transform(u)) if small is None else (lambda u, s=small: wh.walsh_hadamard_transform(u, s))
          got = np.asarray(f(jnp.array(v)), np.float64)
          i = np.arange(n)
          exp = np.zeros(n)
          for p, a in zip(pos, [1, 2, -1, 3]):
            x = i & p
            par = np.zeros(n, np.int64)
            while np.any(x):
              par += x & 1
              x >>= 1
            exp += a * np.where(par % 2 == 0, 1, -1)
          ok = np.array_equal(got, exp)
          detail = ''
        # twice = n * identity, on an integer vector
        v2 = np.array([((i * 7) % 5) - 2 for i in range(n)], np.float32)
        tw = np.asarray(f(f(jnp.array(v2))), np.float64)
        ok2 = np.allclose(tw, n * v2.astype(np.float64), rtol=1e-5, atol=1e-3)
      except Exception as ex:  # pylint: disable=broad-except
        key = 'explicit-small_n-TracerBoolConversionError' if (small is not None and 'Tracer' in type(ex).__name__ + str(ex)) else f'wht:exception:{type(ex).__name__}'
        ctx.violation(key, f'walsh_hadamard_transform(len {n}, small_n={small}) raised {type(ex).__name__}: {str(ex)[:160]}', replay={'cfg': cfg})
        continue
      if not ok:
        ctx.violation('wht:not-sylvester', f'walsh_hadamard_transform(len {n}, small_n={small}) is not multiplication by the Sylvester matrix; {detail}', replay={'cfg': cfg})
      elif not ok2:
        ctx.violation('wht:twice', f'applying the transform twice does not multiply by {n} (small_n={small})', replay={'cfg': cfg})
  # "all real input vectors": integer vectors are transformed exactly (entries and partial sums beyond 2^24, where float32
  # stops being exact), and the result keeps the input dtype
  for n_i, small_i in ((4, None), (8, 2), (16, 4), (64, None)):
    H_i = sylvester(n_i).astype(np.int64)
    xi = np.array([16777217, 0, 3, 5, -33554433, 7, 1, 2] * (n_i // 4), np.int64)[:n_i]
    n_runs += 1
    ctx.case(key=('wht-int', n_i, small_i), nontrivial=True)
    try:
      gi = wh.walsh_hadamard_transform(jnp.array(xi, jnp.int32)) if small_i is None else wh.walsh_hadamard_transform(jnp.array(xi, jnp.int32), small_i)
      if not np.array_equal(np.asarray(gi, np.int64), H_i @ xi):
        ctx.violation('wht:not-sylvester:int32', f'walsh_hadamard_transform of the int32 vector {xi.tolist()[:8]}... (len {n_i}, small_n={small_i}) is {np.asarray(gi).tolist()[:6]}..., '
                      f'the Sylvester product is {(H_i @ xi).tolist()[:6]}...', replay={'n': n_i, 'small_n': small_i})
    except Exception as ex:  # pylint: disable=broad-except
      ctx.violation(f'wht:exception:{type(ex).__name__}', f'int32 input, len {n_i}, small_n={small_i}: {type(ex).__name__}: {str(ex)[:160]}', replay={'n': n_i})
  ctx.trace_ok(n_runs)
  ctx.leg('R', transform_cases=n_runs, tlc_columns=len(cols))
  ctx.sample({'n': 8, 'j': 3, 'tlc_column': cols.get((8, 3))})

  # ---- the structured rotation
  shapes = [(1,), (1, 1), (2,), (3,), (2, 3), (5, 1, 2), (4, 4), (7,), (16,), (17,), (3, 3, 3), (1, 9), (64,), (100,)]
  if big:
    shapes += [(33,), (2, 2, 2, 2, 2), (255,), (256,), (1000,)]
  nrot = 0
  nprng = np.random.RandomState(ctx.seed)
  for shp in shapes:
    for scale in (1.0, 1e-6, 1e-3, 1e4) if big else (1.0, 1e-6, 1e4):
      for kseed in range(8 if big else 5):
        x = (nprng.randn(*shp) * scale).astype(np.float32)
        if kseed == 0:
          x = (nprng.randint(-3, 4, size=shp) * scale).astype(np.float32)
        key = jax.random.PRNGKey(kseed * 13 + 1)
        cfg = dict(shape=shp, scale=scale, key=kseed * 13 + 1)
        size = int(np.prod(shp))
        ctx.case(key=('rot', shp, scale, kseed), nontrivial=(size & (size - 1)) != 0 or len(shp) != 1)
        nrot += 1
        # "for all keys": also under JAX's other key-to-bits scheme (the draws for a shorter shape are then not a prefix
        # of the draws for a longer one), on the last key of every shape/scale
        other_scheme = kseed == (8 if big else 5) - 1
        cfg['threefry_partitionable'] = not other_scheme
        try:
          with jax.threefry_partitionable(not other_scheme):
            rot, oshape = wh.structured_rotation(jnp.array(x), key)
            back = wh.inverse_structured_rotation(rot, key, oshape)
        except Exception as ex:  # pylint: disable=broad-except
          ctx.violation(f'rotation:exception:{type(ex).__name__}', f'{type(ex).__name__}: {str(ex)[:160]} for {cfg}', replay={'cfg': cfg})
          continue
        rot = np.asarray(rot, np.float64)
        back = np.asarray(back)
        nx, nr = np.linalg.norm(x.astype(np.float64)), np.linalg.norm(rot)
        if not np.all(np.isfinite(rot)) or abs(nr - nx) > 1e-5 * nx + 1e-30:
          ctx.violation('rotation:norm', f'|rotate(x)| = {nr} but |x| = {nx} for {cfg}', replay={'cfg': cfg})
        elif back.shape != x.shape or not np.allclose(back, x, rtol=2e-5, atol=2e-6 * scale):
          ctx.violation('rotation:inverse', f'inverse(rotate(x)) != x for {cfg}: max error {float(np.max(np.abs(back.astype(np.float64) - x))) if back.shape == x.shape else "shape " + str(back.shape)}',
                        replay={'cfg': cfg, 'x': x.tolist(), 'back': back.tolist()})
    if int(np.prod(shp)) >= 16:
      x = nprng.randn(*shp).astype(np.float32)
      a, _ = wh.structured_rotation(jnp.array(x), jax.random.PRNGKey(1))
      b, _ = wh.structured_rotation(jnp.array(x), jax.random.PRNGKey(2))
      if np.allclose(np.asarray(a), np.asarray(b)):
        ctx.violation('rotation:same-for-different-keys', f'two keys give the same rotation for shape {shp}', replay={'shape': shp})
  # leaf-wise on trees
  leaf = lambda *shape: jnp.array(nprng.randn(*shape), jnp.float32)
  # every tree structure: nested dicts, a bare array, tuples / lists, a single-leaf container
  import collections  # pylint: disable=g-import-not-at-top
  Dense = collections.namedtuple('Dense', 'w b')
  trees = [{'w': leaf(3, 5), 'b': {'c': leaf(7), 'd': leaf(1)}}, leaf(6), (leaf(5), leaf(2, 2)), [leaf(3)], {'only': leaf(9)}, [leaf(4), {'x': leaf(3), 'y': (leaf(2),)}],
           [(leaf(3, 2), leaf(2)), (leaf(2, 2), leaf(2))], {'dense': Dense(leaf(4), leaf(3)), 'none': None}, (leaf(2), leaf(3), leaf(4))]
  # tied parameters: ONE array object at two positions of the tree (each position has its own sub-key)
  tied_a, tied_b = leaf(5), leaf(2, 3)
  trees += [{'encoder': tied_a, 'decoder': tied_a}, [tied_b, leaf(3), tied_b]]
  for kseed in range(18):
    tree = trees[kseed % len(trees)]
    key = jax.random.PRNGKey(100 + kseed)
    nrot += 1
    ctx.case(key=('tree', kseed), nontrivial=True)
    try:
      rt, shapes_t = wh.structured_rotation_pytree(tree, key)
      bk = wh.inverse_structured_rotation_pytree(rt, key, shapes_t)
      if jax.tree_util.tree_structure(bk) != jax.tree_util.tree_structure(tree) or jax.tree_util.tree_structure(rt) != jax.tree_util.tree_structure(tree):
        raise ValueError(f'tree structure changed: {jax.tree_util.tree_structure(rt)}')
    except Exception as ex:  # pylint: disable=broad-except
      ctx.violation('rotation:tree-exception', f'{type(ex).__name__}: {str(ex)[:160]} rotating / un-rotating a tree of structure {jax.tree_util.tree_structure(tree)}', replay={'key': 100 + kseed})
      continue
    for (p1, l1), (p2, l2), (p3, l3) in zip(jax.tree_util.tree_leaves_with_path(tree), jax.tree_util.tree_leaves_with_path(bk), jax.tree_util.tree_leaves_with_path(rt)):
      if np.asarray(l1).shape != np.asarray(l2).shape or not np.allclose(np.asarray(l1), np.asarray(l2), rtol=2e-5, atol=2e-6):
        ctx.violation('rotation:tree-inverse', f'leaf {p1}: inverse rotation of the tree does not restore the leaf (key {100 + kseed})', replay={'key': 100 + kseed})
      if abs(np.linalg.norm(np.asarray(l3)) - np.linalg.norm(np.asarray(l1))) > 1e-5 * np.linalg.norm(np.asarray(l1)):
        ctx.violation('rotation:tree-norm', f'leaf {p1}: rotation of the tree changes the norm (key {100 + kseed})', replay={'key': 100 + kseed})
  # rotated values that come back from the host (writable NumPy arrays, as after decompression): the inverse must not write into
  # them - the buffer is unchanged afterwards and a second inverse of it gives the same result
  for shp in ((6,), (3, 5), (8,), (1,)):
    x = nprng.randn(*shp).astype(np.float32)
    key = jax.random.PRNGKey(321)
    rot, oshape = wh.structured_rotation(jnp.array(x), key)
    buf = np.array(rot)
    snap = buf.copy()
    nrot += 1
    ctx.case(key=('inverse-on-host-buffer', shp), nontrivial=True)
    try:
      back1 = np.asarray(wh.inverse_structured_rotation(buf, key, oshape))
      back2 = np.asarray(wh.inverse_structured_rotation(buf, key, oshape))
      tb = {'a': np.array(rot), 'b': [np.array(rot)]}
      tsnap = np.array(rot)
      tback = wh.inverse_structured_rotation_pytree(tb, key, {'a': oshape, 'b': [oshape]})
      jax.tree_util.tree_map(np.asarray, tback)
    except Exception as ex:  # pylint: disable=broad-except
      ctx.violation(f'rotation:exception:{type(ex).__name__}', f'{type(ex).__name__}: {str(ex)[:160]} un-rotating a NumPy array of shape {shp}', replay={'shape': shp})
      continue
    if not np.array_equal(buf, snap) or not np.array_equal(tb['a'], tsnap) or not np.array_equal(tb['b'][0], tsnap):
      ctx.violation('rotation:inverse-writes-into-its-argument', f'the caller\'s NumPy array of rotated values (original shape {shp}) changed during the inverse rotation', replay={'shape': shp})
    elif not np.allclose(back1, x, rtol=2e-5, atol=2e-6) or not np.allclose(back2, x, rtol=2e-5, atol=2e-6):
      ctx.violation('rotation:inverse', f'inverse(rotate(x)) != x for a NumPy array of rotated values, shape {shp} (first / second call)', replay={'shape': shp})
  # the same tree rotated under a succession of FRESH key objects (each created after the previous one was dropped, as in a
  # loop over rounds): different keys give different rotations, and a value-equal key made later inverts
  tree_f = {'w': jnp.array(nprng.randn(3, 5), jnp.float32), 'b': jnp.array(nprng.randn(7), jnp.float32)}
  rotated = []
  for seed_k in range(8):
    key = jax.random.PRNGKey(500 + seed_k)
    rt, shapes_t = wh.structured_rotation_pytree(tree_f, key)
    rotated.append((seed_k, rt, shapes_t))
    del key
  nrot += 8
  for i in range(8):
    for j in range(i + 1, 8):
      if np.allclose(np.asarray(rotated[i][1]['w']), np.asarray(rotated[j][1]['w'])):
        ctx.violation('rotation:tree-same-for-different-keys', f'keys {500 + i} and {500 + j} (fresh key objects, one after the other) rotate the tree identically', replay={'keys': [500 + i, 500 + j]})
        break
  # ... and in a tight loop that keeps nothing alive, so that the interpreter hands the address of the dropped key to the next
  # one (observed through id(), counted): the rotation is a function of the key's VALUE, whatever object carries it; raw
  # uint32 keys given as jax and as NumPy arrays
  for kind in ('jax', 'numpy'):
    prev, reused, hit = None, 0, None
    for seed_k in range(40):
      key = jax.random.PRNGKey(900 + seed_k) if kind == 'jax' else np.array([0, 900 + seed_k], np.uint32)
      kid = id(key)
      w_rot = np.asarray(wh.structured_rotation_pytree(tree_f, key)[0]['w'])
      if prev is not None and prev[0] == kid:
        reused += 1
        if hit is None and np.allclose(prev[1], w_rot):
          hit = seed_k
      prev = (kid, w_rot)
      del key
    nrot += 40
    ctx.case(key=('tree-fresh-keys-tight-loop', kind), nontrivial=reused > 0)
    if hit is not None:
      ctx.violation('rotation:tree-same-for-different-keys', f'keys {900 + hit - 1} and {900 + hit} ({kind} arrays; the second object reuses the address of the dropped first) rotate the tree identically',
                    replay={'keys': [900 + hit - 1, 900 + hit], 'kind': kind})
  for seed_k, rt, shapes_t in rotated:
    bk = wh.inverse_structured_rotation_pytree(rt, jax.random.PRNGKey(500 + seed_k), shapes_t)
    if not np.allclose(np.asarray(bk['w']), np.asarray(tree_f['w']), rtol=2e-5, atol=2e-6) or not np.allclose(np.asarray(bk['b']), np.asarray(tree_f['b']), rtol=2e-5, atol=2e-6):
      ctx.violation('rotation:tree-inverse', f'a value-equal key created later does not invert the rotation made with key {500 + seed_k}', replay={'key': 500 + seed_k})
  # "all real input arrays": integer and boolean dtypes too (norm and inverse in float arithmetic)
  for dt in (np.uint8, np.uint16, np.int8, np.int32, np.bool_, np.float16):
    for shp in ((5,), (4, 4), (9,)):
      x = (nprng.randint(0, 2, size=shp) if dt == np.bool_ else nprng.randint(90, 120, size=shp)).astype(dt)
      key = jax.random.PRNGKey(77)
      nrot += 1
      cfg = dict(shape=shp, dtype=np.dtype(dt).name)
      ctx.case(key=('rot-dtype', shp, cfg['dtype']), nontrivial=True)
      try:
        rot, oshape = wh.structured_rotation(jnp.array(x), key)
        back = wh.inverse_structured_rotation(rot, key, oshape)
      except Exception as ex:  # pylint: disable=broad-except
        ctx.violation(f'rotation:exception:{type(ex).__name__}', f'{type(ex).__name__}: {str(ex)[:160]} for {cfg}', replay={'cfg': cfg})
        continue
      xf = x.astype(np.float64)
      nx, nr = np.linalg.norm(xf), np.linalg.norm(np.asarray(rot, np.float64))
      tolr = 2e-3 if dt == np.float16 else 1e-5
      if abs(nr - nx) > tolr * nx + 1e-6:
        ctx.violation('rotation:norm', f'|rotate(x)| = {nr} but |x| = {nx} for {cfg}', replay={'cfg': cfg})
      elif np.asarray(back).shape != x.shape or not np.allclose(np.asarray(back, np.float64), xf, rtol=tolr, atol=tolr * 100):
        ctx.violation('rotation:inverse', f'inverse(rotate(x)) != x for {cfg}', replay={'cfg': cfg, 'x': x.tolist(), 'back': np.asarray(back).tolist()})
  ctx.trace_ok(nrot)
  ctx.leg('R', rotation_cases=nrot)
  # information only: rank-0
  try:
    rot, osh = wh.structured_rotation(jnp.array(2.0), jax.random.PRNGKey(0))
    wh.inverse_structured_rotation(rot, jax.random.PRNGKey(0), osh)
    ctx.notes.append('rank-0 input: rotation and inverse work')
  except Exception as ex:  # pylint: disable=broad-except
    ctx.notes.append(f'rank-0 input (outside the property as read): inverse raises {type(ex).__name__}')
