"""Runs the free client program on a real for_each_client backend in a process with N forced host devices."""
import json
import os
import sys


ID_POOL = [None, 0, '', b'', (0,), 'a\x00', b'\x00', -1, 1.5, frozenset(), ('x', None), 7, 'id', b'id', (1, 2), 2.5]


def main():
  job = json.load(sys.stdin)
  os.environ['XLA_FLAGS'] = '--xla_force_host_platform_device_count=%d' % job['devices']
  import jax  # pylint: disable=g-import-not-at-top
  import jax.numpy as jnp  # pylint: disable=g-import-not-at-top
  import numpy as np  # pylint: disable=g-import-not-at-top
  from fedjax.core import for_each_client as fec  # pylint: disable=g-import-not-at-top
  assert jax.local_device_count() == job['devices'], (jax.local_device_count(), job['devices'])
  L = job['maxlen']

  def is_key(x):
    return hasattr(x, 'dtype') and jax.dtypes.issubdtype(x.dtype, jax.dtypes.prng_key)

  def to_np(x):
    return np.array(jax.random.key_data(x)) if is_key(x) else np.array(x)

  def client_init(shared, ci):
    seq = jnp.zeros((L,), jnp.int32).at[0].set(ci['cid'])
    st = {'seq': seq, 'cnt': jnp.int32(1), 'vec': jnp.zeros((2,), jnp.float32) + ci['bias'], 'flag': ci['cid'] > 0,
          'h': ci['cid'].astype(jnp.uint32)}
    if 'rk' in ci:
      st['rk'] = ci['rk']     # a new-style typed key travels through the client state
    return st

  def client_step(state, batch):
    q = 1.0 / batch['d']   # inf on an all-zero padding batch: a leaked padding step poisons vec
    new = {'seq': state['seq'].at[state['cnt']].set(batch['tok']), 'cnt': state['cnt'] + 1,
           'vec': state['vec'] + batch['v'] * q, 'flag': state['flag'], 'h': state['h'] * jnp.uint32(31) + batch['tok'].astype(jnp.uint32)}
    res = {'before': state['cnt'], 'tok': batch['tok'], 'q': q}
    if 'rk' in state:
      new['rk'] = state['rk']
      res['bk'] = jax.random.key_data(batch['bk'])[-1]
    return new, res

  def client_step_noresult(state, batch):
    return client_step(state, batch)[0]

  def client_final(shared, state):
    o = {'seq': state['seq'], 'cnt': state['cnt'], 'vec': state['vec'] + shared['base'], 'flag': state['flag'], 'h': state['h'],
         'k': shared['k']}
    if 'rk' in state:
      o['kd'] = jax.random.key_data(state['rk'])[-1]
    return o

  out = []
  for case in job['cases']:
    nb = case['nb']
    for backend in job['backends']:
      for with_res in job['with_step_result']:
        mk = jnp.array if case.get('jax_inputs', True) else np.array
        shared = {'base': mk(np.float32(1000.)), 'k': mk(np.int32(7))}
        clients = []
        # client ids are opaque to the backends: every second case uses ids of other types (None, 0, empty str / bytes, tuples ...)
        odd = case.get('odd_ids')
        for c, n in enumerate(nb, start=1):
          ci = {'cid': mk(np.int32(c)), 'bias': mk(np.float32(c * 0.5))}
          batches = [{'tok': mk(np.int32(c * 16 + jj)), 'v': mk(np.array([c, jj], np.float32)), 'd': mk(np.float32(1.0))} for jj in range(1, n + 1)]
          if case.get('typed_keys'):
            # new-style typed PRNG keys (jax.random.key) as leaves of the client input and of every batch
            ci['rk'] = jax.random.key(c)
            for b_ in batches:
              b_['bk'] = jax.random.key(int(b_['tok']))
          clients.append((ID_POOL[c - 1] if odd else c, batches, ci))
        order = case.get('order') or list(range(len(clients)))
        listed = [clients[i] for i in order]
        fn = None
        for call in range(case.get('calls', 1)):
          try:
            if call > 0:
              # the caller updates the shared input between calls: numpy leaves in place (same objects), jax leaves rebound
              if case.get('jax_inputs', True):
                shared['base'] = shared['base'] + 1
                shared['k'] = shared['k'] + 1
              else:
                shared['base'] += 1
                shared['k'] += 1
            snap = jax.tree_util.tree_map(to_np, (shared, [(b, ci) for _, b, ci in listed]))
          except RuntimeError:
            break    # an earlier call deleted (donated) a caller array: already recorded as inputs_alive = False
          rec = {'nb': nb, 'backend': backend, 'with_step_result': with_res, 'order': order, 'yields': [], 'error': None,
                 'call': call, 'base': 1000. + call, 'k': 7 + call, 'typed_keys': bool(case.get('typed_keys'))}
          try:
            if fn is None:
              with fec.for_each_client_backend(backend):
                if with_res:
                  fn = fec.for_each_client(client_init, client_step, client_final, with_step_result=True)
                else:
                  fn = fec.for_each_client(client_init, client_step_noresult, client_final)
            arg = (x for x in listed) if case.get('gen') else listed
            for item in fn(shared, arg):
              if with_res:
                cid, o, res = item
              else:
                cid, o = item
                res = None
              cnt = int(o['cnt'])
              seq = [int(x) for x in np.asarray(o['seq'])[:cnt]]
              finite = bool(np.all(np.isfinite(np.asarray(o['vec']))))
              if case.get('odd_ids'):
                where = [i for i, x in enumerate(ID_POOL) if type(x) is type(cid) and x == cid]
                cid = where[0] + 1 if where else -1
              y = {'id': int(cid), 'seq': seq, 'cnt': cnt, 'vec': [float(x) for x in np.asarray(o['vec'])], 'flag': bool(o['flag']),
                   'h': int(o['h']), 'k': int(o['k']), 'finite': finite}
              if res is not None:
                y['res'] = [{'before': int(r['before']), 'tok': int(r['tok']), 'q': float(r['q'])} for r in res]
              if case.get('typed_keys'):
                y['keys_ok'] = int(o['kd']) == y['id'] and (res is None or all(int(r['bk']) == int(r['tok']) for r in res))
              rec['yields'].append(y)
          except Exception as ex:  # pylint: disable=broad-except
            rec['error'] = f'{type(ex).__name__}: {ex}'[:300]
          alive, same = True, True
          flat_now = jax.tree_util.tree_leaves((shared, [(b, ci) for _, b, ci in listed]))
          flat_old = jax.tree_util.tree_leaves(snap)
          for a, b in zip(flat_now, flat_old):
            if hasattr(a, 'is_deleted') and a.is_deleted():
              alive = False
            elif not np.array_equal(to_np(a), b):
              same = False
          rec['inputs_alive'], rec['inputs_unchanged'] = alive, same
          out.append(rec)
  json.dump(out, sys.stdout)


if __name__ == '__main__':
  main()
