"""C16 - serialization round-trips every supported value exactly.

Leg M: TLC on Serialization.tla: the decision table of the msgpack extension-type dispatch composed over dict / list
       trees: every tree of supported leaves round-trips, a tree with an unsupported leaf is rejected, nothing is
       silently altered; three deviations reported.  (The TLA+ contribution here is the decision table and the
       compositional enumeration; value equality itself is the driver's projection: type, dtype, shape, tolist.)
Leg R: every abstract tree TLC enumerates is instantiated with several concrete values per leaf kind (all int / uint
       widths, float16/32/64, bfloat16, complex, bool; 0-d, empty, rank 4; Fortran / strided views; both byte orders;
       bytes-object arrays) and pushed through msgpack_deserialize(msgpack_serialize(x)); SQLite builder -> reader round
       trip of whole datasets (read twice, with an in-place edit of the first result in between); save_state /
       load_state and checkpoints of algorithm states.
"""
import collections
import os
import shutil

import numpy as np

from vf.core import Machinery

INVS = ['RoundTrip', 'NeverSilentlyAlters', 'Rejects']


def project(x):
  """Comparable projection of a python value: type, dtype, shape, logical values."""
  import jax  # pylint: disable=g-import-not-at-top
  if isinstance(x, dict):
    return ('dict', tuple(sorted((repr(k), project(v)) for k, v in x.items())))
  if isinstance(x, list):
    return ('list', tuple(project(v) for v in x))
  if isinstance(x, tuple):
    return ('tuple', tuple(project(v) for v in x))
  if isinstance(x, jax.Array):
    x = np.asarray(x)
    return ('ndarray', str(x.dtype.name), x.shape, repr(x.tolist()))
  if isinstance(x, np.ndarray):
    if x.dtype == object:
      return ('ndarray', 'object', x.shape, tuple((type(e).__name__, e) for e in x.reshape(-1).tolist()))
    return ('ndarray', str(x.dtype.name), x.shape, repr(x.tolist()))
  if isinstance(x, np.generic):
    return ('npscalar', str(x.dtype.name), repr(x.item()))
  return (type(x).__name__, repr(x))


def concrete(kind, rng, nprng):
  """Several concrete python values for an abstract leaf kind."""
  import jax.numpy as jnp  # pylint: disable=g-import-not-at-top
  dts = [np.int8, np.int16, np.int32, np.int64, np.uint8, np.uint16, np.uint32, np.uint64, np.float16, np.float32, np.float64, np.complex64,
         np.complex128, np.bool_]
  dt = rng.choice(dts)

  def arr(shape):
    if dt == np.bool_:
      return np.asarray(nprng.rand(*shape) > .5)
    if np.issubdtype(dt, np.complexfloating):
      return np.asarray(nprng.randn(*shape) + 1j * nprng.randn(*shape)).astype(dt)
    if np.issubdtype(dt, np.floating):
      return np.asarray(nprng.randn(*shape) * 3).astype(dt)
    info = np.iinfo(dt)
    return np.asarray(nprng.randint(max(info.min, -1000), min(info.max, 1000), size=shape)).astype(dt)

  if kind == 'nd_num_native':
    return rng.choice([arr((3,)), arr((2, 3)), arr((2, 1, 3, 2))])
  if kind == 'nd_num_swapped':
    shape = rng.choice([(3,), (3,), (), (2, 2), (0,), (1,)])     # every rank, also 0-d and empty, in the foreign byte order
    a = arr(shape) if dt not in (np.bool_, np.int8, np.uint8) else (np.arange(1, 1 + int(np.prod(shape)), dtype=np.int32).reshape(shape))
    return a.astype(a.dtype.newbyteorder('>' if a.dtype.byteorder in ('=', '<', '|') else '<'))
  if kind == 'nd_num_fortran':
    return np.asfortranarray(arr((3, 4)))
  if kind == 'nd_num_strided':
    return rng.choice([arr((6, 4))[::2, ::-1], arr((5,))[::-1], arr((4, 4)).T])
  if kind == 'nd_num_0d':
    return arr(())
  if kind == 'nd_num_empty':
    return rng.choice([arr((0,)), arr((2, 0, 3))])
  if kind == 'jax_array':
    return rng.choice([jnp.array(nprng.randn(2, 3), jnp.float32), jnp.array([1, 2, 3], jnp.int32), jnp.array(nprng.randn(4), jnp.bfloat16)])
  if kind == 'nd_bytes_obj':
    two = np.array([[b'x', b'yy', b'q'], [b'', b'z\x00', b'\xff']], dtype=object)
    three = np.array([[[b'a%d%d%d' % (i, j, k) for k in range(2)] for j in range(3)] for i in range(2)], dtype=object)
    # every memory layout: row-major, column-major, transposed and permuted views, strided
    return rng.choice([np.array([b'ab', b'', b'\x00\xff'], dtype=object), two, np.asfortranarray(two), two.T, three.transpose(1, 0, 2), three[:, ::2, ::-1],
                       np.asfortranarray(three)])
  if kind == 'nd_bytes_obj_empty':
    return np.array([], dtype=object)
  if kind == 'np_scalar':
    return rng.choice([np.float64(1.5), np.float32(-2.25), np.int64(7), np.int8(-3), np.uint16(9), np.bool_(True), np.complex64(1 + 2j), np.float16(0.5)])
  if kind == 'py_int':
    return rng.choice([0, -5, 2**40])
  if kind == 'py_float':
    return rng.choice([0.5, -1e300])
  if kind == 'py_bool':
    return rng.choice([True, False])
  if kind == 'py_str':
    return rng.choice(['', 'héllo'])
  if kind == 'py_bytes':
    return rng.choice([b'', b'\x00\xff'])
  if kind == 'py_none':
    return None
  if kind == 'py_complex':
    return complex(1.5, -2)
  if kind == 'tuple':
    return rng.choice([(1, 2), (np.array([1.0]), 3), collections.namedtuple('P', 'a b')(1, 2)])
  if kind == 'nd_str':
    return np.array(['ab', 'c'])
  if kind == 'nd_struct':
    return rng.choice([np.zeros(2, dtype=[('a', np.int32), ('b', np.float64)]), np.zeros(2, dtype=np.dtype([('a', np.int8), ('b', np.int64)], align=True))])
  if kind == 'nd_obj_mixed':
    return rng.choice([np.array([b'ab', 'cd'], dtype=object), np.array([b'ab', 3], dtype=object)])
  raise Machinery('unknown kind ' + kind)


def build(shape, values):
  if shape == 'leaf':
    return values[0]
  if shape == 'dict':
    return {f'k{i}': v for i, v in enumerate(values)}
  if shape == 'list':
    return list(values)
  return {'outer': [values[0], {'inner': list(values[1:])}]}


def run(ctx):
  import jax  # pylint: disable=g-import-not-at-top
  import jax.numpy as jnp  # pylint: disable=g-import-not-at-top
  import fedjax  # pylint: disable=g-import-not-at-top
  from fedjax.core import serialization as ser  # pylint: disable=g-import-not-at-top
  from fedjax.core import sqlite_federated_data as sq  # pylint: disable=g-import-not-at-top
  from fedjax.training import checkpoint  # pylint: disable=g-import-not-at-top
  big = ctx.thorough
  rng = ctx.rng
  nprng = np.random.RandomState(ctx.seed)
  ctx.rule = ('case = (container shape, leaf kinds) x concrete instantiations; non-trivial = tree with >= 2 leaves or a non-contiguous / '
              'non-native / 0-d / empty array; distinct by the abstract tree and the concrete dtype/shape')
  ctx.assumptions += ['value equality is the driver projection (type, dtype name, shape, tolist); TLA+ contributes the decision table of '
                      'the ext-type dispatch and the enumeration of trees']
  r = ctx.model_check('Serialization', name='Serialization_M', constants=dict(MaxLeaves=3 if big else 2, KeepByteOrder=True, CheckEveryElement=True, StrictTypes=True),
                      invariants=INVS + ['Emit'], workers=1)
  for tog, inv in (('KeepByteOrder', 'RoundTrip'), ('CheckEveryElement', 'NeverSilentlyAlters'), ('StrictTypes', 'NeverSilentlyAlters')):
    c = dict(MaxLeaves=2, KeepByteOrder=True, CheckEveryElement=True, StrictTypes=True)
    c[tog] = False
    ctx.model_check('Serialization', expect=[inv, 'Rejects'], name=f'Serialization_ctl_{tog}', constants=c, invariants=INVS, coverage=False)
  ctx.require_actions(['RoundTripStep'])
  cases = r.json
  if big:
    rng.shuffle(cases)
    cases = cases[:6000]
  replayed = 0
  for c in cases:
    for rep in range(3 if len(c['leaves']) == 1 else 1):
      vals = [concrete(k, rng, nprng) for k in c['leaves']]
      x = build(c['shape'], vals)
      try:
        y = ser.msgpack_deserialize(ser.msgpack_serialize(x))
        got = 'equal' if project(x) == project(y) else 'altered'
      except Exception as ex:  # pylint: disable=broad-except
        got = 'rejected'
        y = f'{type(ex).__name__}: {ex}'[:120]
      replayed += 1
      ctx.case(key=(c['shape'], tuple(c['leaves']), rep), nontrivial=len(c['leaves']) >= 2 or c['leaves'][0] not in ('nd_num_native', 'py_int'))
      if got != c['expect']:
        kinds = c['leaves']
        if 'nd_num_swapped' in kinds and got == 'altered':
          key = 'non-native-byte-order-silently-swapped'
        elif 'nd_obj_mixed' in kinds and got == 'altered':
          key = 'mixed-object-array-silently-converted'
        else:
          special = sorted(set(k for k in kinds if k in ('tuple', 'nd_str', 'nd_struct', 'nd_obj_mixed', 'np_scalar', 'py_complex', 'nd_bytes_obj', 'nd_bytes_obj_empty')))
          key = f'roundtrip:{got}-instead-of-{c["expect"]}:{"+".join(special) if special else "+".join(sorted(set(kinds)))}'
        ctx.violation(key, f'{c["shape"]} of {kinds}: round trip is "{got}", the specification says "{c["expect"]}"; in: {str(project(x))[:300]} out: {str(project(y) if got != "rejected" else y)[:300]}',
                      replay={'shape': c['shape'], 'kinds': kinds, 'expected': c['expect'], 'got': got})
  ctx.trace_ok(replayed)
  ctx.leg('R', abstract_trees=len(cases), replays=replayed)
  ctx.sample({'abstract_tree': cases[11]})

  # ---- SQLite builder -> reader
  for trial in range(6 if big else 3):
    path = os.path.join(ctx.scratch, f'rt{trial}.sqlite')
    if os.path.exists(path):
      os.remove(path)
    ids = [b'\x00', b'a', b'a\x00', b'\xff\xfe', b'client-%d' % trial]
    data = {}
    for i, cid in enumerate(ids):
      m = [0, 1, 3, 2, 5][i]
      data[cid] = {'x': nprng.randn(m, 2, 2).astype(np.float32), 'y': nprng.randint(-5, 5, size=(m,)).astype(np.int64),
                   'b': np.array([b'w%d' % j for j in range(m)], dtype=object), 'u8': nprng.randint(0, 255, size=(m, 3)).astype(np.uint8),
                   'f16': nprng.randn(m).astype(np.float16)}
    order = list(ids)
    rng.shuffle(order)
    staged = None
    with sq.SQLiteFederatedDataBuilder(path) as b:
      half = len(order) // 2
      # add_many takes any Iterable of (id, examples): a list, or a one-shot iterator / generator / map
      first_stage = [(cid, data[cid]) for cid in order[:half]]
      b.add_many((first_stage, iter(first_stage), (x for x in first_stage), map(lambda x: x, first_stage))[trial % 4])
      # what add_many has returned is in the file: a reader opened now (between two stages) sees the first stage
      try:
        staged = sorted(sq.SQLiteFederatedData.new(path).client_ids())
      except Exception as ex:  # pylint: disable=broad-except
        staged = f'{type(ex).__name__}: {str(ex)[:80]}'
      second_stage = [(cid, data[cid]) for cid in order[half:]]
      b.add_many((map(lambda x: x, second_stage), second_stage, iter(second_stage), (x for x in second_stage))[trial % 4])
    fd = sq.SQLiteFederatedData.new(path)
    ok_ids = sorted(fd.client_ids()) == sorted(ids) and fd.num_clients() == len(ids)
    sizes = dict(fd.client_sizes())
    ok_sizes = all(sizes.get(c) == len(data[c]['y']) for c in ids)
    problems = []
    if staged != sorted(order[:len(order) // 2]):
      problems.append(f'a reader opened after the first add_many (builder still open) sees {staged if isinstance(staged, str) else len(staged)} instead of the {len(order) // 2} clients written so far')
    for cid in ids:
      try:
        first = fd.get_client(cid).raw_examples
      except Exception as ex:  # pylint: disable=broad-except
        problems.append(f'client {cid!r}: get_client fails: {type(ex).__name__}: {str(ex)[:80]}')
        continue
      if project(dict(first)) != project(data[cid]):
        problems.append(f'client {cid!r}: examples differ after the round trip')
      # a caller editing what it got back must not change what later reads return
      try:
        first['x'] = first['x'][:0]
        first.pop('y', None)
      except TypeError:
        pass
      try:
        again = sq.SQLiteFederatedData.new(path).get_client(cid).raw_examples
        again2 = dict(fd.get_clients([cid]))[cid].raw_examples
        if project(dict(again)) != project(data[cid]) or project(dict(again2)) != project(data[cid]):
          problems.append(f'client {cid!r}: a second read returns something else after the first result was edited in place')
      except Exception as ex:  # pylint: disable=broad-except
        problems.append(f'client {cid!r}: a second read fails after the first result was edited in place: {type(ex).__name__}')
    # reads interleaved on ONE object: two scans advanced in lock step, and point lookups made while a scan is live
    try:
      pairs = list(zip(fd.client_ids(), fd.client_sizes()))
      if sorted(p[0] for p in pairs) != sorted(ids) or any(p[0] != p[1][0] or p[1][1] != len(data[p[0]]['y']) for p in pairs):
        problems.append(f'interleaved client_ids() / client_sizes() scans give {pairs[:4]}... for ids {sorted(ids)[:4]}...')
      seen = []
      for cid, ds in fd.clients():
        seen.append(cid)
        if fd.client_size(cid) != len(data[cid]['y']) or project(dict(fd.get_client(cid).raw_examples)) != project(data[cid]) or project(dict(ds.raw_examples)) != project(data[cid]):
          problems.append(f'client {cid!r}: a point lookup during a scan disagrees with what was written')
      if sorted(seen) != sorted(ids):
        problems.append(f'a scan with point lookups in its body visits {len(seen)} of {len(ids)} clients')
    except Exception as ex:  # pylint: disable=broad-except
      problems.append(f'interleaved reads fail: {type(ex).__name__}: {str(ex)[:80]}')
    replayed += 1
    ctx.case(key=('sqlite', trial), nontrivial=True)
    if not ok_ids or not ok_sizes:
      problems.append(f'ids/sizes differ: {sorted(fd.client_ids())} {sizes}')
    if problems:
      ctx.violation('sqlite-roundtrip:' + problems[0].split(':')[-1].strip()[:40], f'SQLite builder -> reader: {problems[0]}', replay={'problems': problems[:5]})
  # ---- save_state / load_state and checkpoints of server states
  states = {
      'fed_avg': fedjax.algorithms.fed_avg.ServerState({'w': jnp.array(nprng.randn(3, 2), jnp.float32), 'b': jnp.zeros((2,), jnp.bfloat16)},
                                                      fedjax.optimizers.adam(0.1).init({'w': jnp.zeros((3, 2)), 'b': jnp.zeros((2,))})),
      'dict_state': {'params': {'a': np.arange(5, dtype=np.int16)}, 'agg': fedjax.aggregators.compression.CompressionState(12.5, jax.random.PRNGKey(3)),
                     'table': {b'c1': {'s': jnp.ones(2)}, b'c2': {'s': jnp.zeros(2)}}},
  }
  # server states as users build them: NumPy leaves of every width (64-bit ones exceed JAX's default 32-bit types), 0-d
  # arrays, NumPy and Python scalars, bytes keys
  states['numpy_state'] = {'step': np.int64(2**40 + 17), 'lr': np.float64(0.1), 'big': np.array([2**40 + 17, -3], np.int64),
                           'u': np.array([2**63 + 5], np.uint64), 'f64': np.array([0.1, 1e-300, 1e300], np.float64),
                           'c128': np.array([1 + 1e-12j], np.complex128), 'zero_d': np.array(0.1, np.float64), 'n': 7, 'x': 0.1,
                           'table': {b'\x00id': np.arange(3, dtype=np.int64)}}
  for ti in range(40 if big else 12):
    kinds = [rng.choice(['nd_num_native', 'nd_num_swapped', 'nd_num_fortran', 'nd_num_strided', 'nd_num_0d', 'nd_num_empty', 'jax_array', 'np_scalar',
                         'py_int', 'py_float', 'py_bool', 'py_str', 'py_bytes', 'py_none']) for _ in range(rng.randint(1, 4))]
    states[f'random_{ti}'] = {f'k{j}': concrete(k, rng, nprng) for j, k in enumerate(kinds)}

  def fingerprint(tree):
    # tree structure plus the projection (type, dtype name, shape, values) of every leaf
    leaves = jax.tree_util.tree_leaves(tree, is_leaf=lambda x: x is None)
    return str(jax.tree_util.tree_structure(tree, is_leaf=lambda x: x is None)) + '|' + repr([project(np.asarray(l)) if hasattr(l, 'dtype') and not isinstance(l, np.generic) else project(l) for l in leaves])

  for name, st in states.items():
    d = os.path.join(ctx.scratch, 'ck_' + name)
    shutil.rmtree(d, ignore_errors=True)
    os.makedirs(d)
    ser.save_state(st, os.path.join(d, 'plain'))
    back = ser.load_state(os.path.join(d, 'plain'))
    checkpoint.save_checkpoint(d, st, round_num=3, keep=2)
    back2, rn = checkpoint.load_latest_checkpoint(d)
    replayed += 1
    ctx.case(key=('state', name), nontrivial=True)
    if fingerprint(back) != fingerprint(st) or fingerprint(back2) != fingerprint(st) or rn != 3:
      ctx.violation(f'state-roundtrip:{name}', f'{name}: a saved server state does not load back equal (round {rn})', replay={'state': name})
      continue
    # a later save that fails (a state that cannot be pickled) must not cost the checkpoint already made
    failed = False
    try:
      checkpoint.save_checkpoint(d, {'ok': np.arange(3), 'bad': (lambda: 0)}, round_num=4, keep=1 if len(name) % 2 else 2)
    except Exception:  # pylint: disable=broad-except
      failed = True
    got = checkpoint.load_latest_checkpoint(d)
    replayed += 1
    if failed and (got is None or got[1] != 3 or fingerprint(got[0]) != fingerprint(st)):
      ctx.violation('state-roundtrip:lost-after-failed-save', f'{name}: after a later save raised, load_latest_checkpoint returns {"nothing" if got is None else "round %d" % got[1]} '
                    f'instead of the state saved at round 3', replay={'state': name})
  ctx.trace_ok(replayed)
