"""C04 - shuffled batching samples without replacement, exact count, seeded.

Leg M: TLC on ShuffleBatch.tla: (i) all permutations at every refill for small N (window / balance properties),
       (ii) identity permutations over the full hyper-parameter grid (count formula vs. its declarative statement),
       plus sensitivity controls.
Leg R: the declarative count table is replayed exhaustively into the real view for N <= 12.
Leg T: real streams (N <= 40, batch size <= 50, many seeds; sequential, repeated and interleaved iteration) recorded
       and validated by TLC against ShuffleBatchTrace; the permutation NumPy drew is read off the stream.
"""
import itertools

import numpy as np

from vf import bat
from vf import traces as vtraces
from vf.core import Machinery

INVS = ['WindowsArePermutations', 'TailDistinct', 'UsageBalanced', 'SkipShuffleIsCyclic', 'CountFormula',
        'NeverTooMany', 'DrawnIsBatches']
TOG = dict(RefillOnlyWhenEmpty=True, CeilCount=True, MinOfLimits=True, ZeroStepsIsZero=True)
NONE = -1


def real_stream(fedjax, n, bs, epochs, steps, drop, skip, seed, variant, chain, cap=None, interleave=False):
  raw = bat.raw_examples(n, variant)
  before = bat.checksum(raw)
  ref = bat.apply_chain(chain, raw)
  ds = fedjax.ClientDataset(raw, fedjax.BatchPreprocessor(bat.CHAINS[chain]))
  # a seed is any integer a caller has at hand: a Python int, or a NumPy integer scalar (e.g. drawn per client from a RandomState)
  seed_obj = seed if seed is None else (seed, np.int64(seed), np.int32(seed % 2**31), np.uint32(seed % 2**32))[(n + bs) % 4]
  # ... and so are the sizes and bounds
  npi = (lambda x: x, np.int64, np.int32)[(n + 2 * bs) % 3]
  bs = npi(bs)
  epochs = epochs if epochs == NONE else npi(epochs)
  steps = steps if steps == NONE else npi(steps)
  hp = fedjax.ShuffleRepeatBatchHParams(batch_size=bs, num_epochs=None if epochs == NONE else epochs,
                                        num_steps=None if steps == NONE else steps, drop_remainder=drop, seed=seed_obj,
                                        skip_shuffle=skip)
  # call styles: the hyper-parameter object alone, keywords alone, or ANOTHER object overridden by keywords (None included)
  style = (n + 3 * bs + (0 if seed is None else seed)) % 3
  kw_all = dict(batch_size=bs, num_epochs=None if epochs == NONE else epochs, num_steps=None if steps == NONE else steps, drop_remainder=drop, seed=seed_obj,
                skip_shuffle=skip)
  if style == 0:
    view = ds.shuffle_repeat_batch(hp)
  elif style == 1:
    view = ds.shuffle_repeat_batch(**kw_all)
  else:
    other = fedjax.ShuffleRepeatBatchHParams(batch_size=bs + 1, num_epochs=3, num_steps=2, drop_remainder=not drop, seed=12345, skip_shuffle=not skip)
    view = ds.shuffle_repeat_batch(other, **kw_all)

  def pull(it):
    out = []
    for b in (itertools.islice(it, cap) if cap is not None else it):
      ids, _, _, ok = bat.check_batch(b, ref)
      out.append((ids, ok))
    return out

  if interleave:
    ia, ib = iter(view), iter(view)
    a, b = [], []
    lim = cap if cap is not None else 10**9
    done_a = done_b = False
    while (not done_a or not done_b) and (len(a) < lim or len(b) < lim):
      if not done_a and len(a) < lim:
        try:
          x = next(ia)
          ids, _, _, ok = bat.check_batch(x, ref)
          a.append((ids, ok))
        except StopIteration:
          done_a = True
      if not done_b and len(b) < lim:
        try:
          x = next(ib)
          ids, _, _, ok = bat.check_batch(x, ref)
          b.append((ids, ok))
        except StopIteration:
          done_b = True
    first, second = a, b
  else:
    first = pull(iter(view))
    second = pull(iter(view))
  unchanged = bat.checksum(ds.raw_examples) == before
  return first, second, unchanged


def mk_trace(cfg, first, second, unchanged, truncated, meta):
  n, bs, epochs, steps, drop, skip, seed = cfg
  ev = [{'e': 'Batch', 'ids': ids, 'feat_ok': ok} for ids, ok in first]
  ev.append({'e': 'End'})
  return {'n': n, 'bs': bs, 'epochs': epochs, 'steps': steps, 'drop': drop, 'skip': skip,
          'seeded': seed is not None or skip, 'truncated': truncated, 'dataset_unchanged': unchanged,
          'stream': [i for ids, _ in first for i in ids], 'again': [i for ids, _ in second for i in ids],
          'meta': dict(meta, seed=seed), 'events': ev}


def decl_steps(n, bs, epochs, steps, drop):
  if epochs != NONE:
    tot = n * epochs
    c = tot // bs if drop else -(-tot // bs)
    return min(c, steps) if steps != NONE else c
  return steps


def run(ctx):
  import fedjax  # pylint: disable=g-import-not-at-top
  ctx.rule = ('case = (N, batch_size, num_epochs, num_steps, drop_remainder, skip_shuffle, seed, iteration style); '
              'non-trivial = the stream spans more than one window of N draws or a batch straddles two windows; '
              'distinct by the hyper-parameter tuple and seed')
  ctx.assumptions += ['which permutation a refill draws is left to NumPy; only "is a permutation" is required',
                      '"re-shuffled" is asserted only for N >= 8 over >= 3 windows (false-alarm probability < 1e-9)']
  big = ctx.thorough
  ctx.model_check('ShuffleBatch', name='ShuffleBatch_M_perms',
                  constants=dict(MaxN=4 if big else 3, MaxBS=5 if big else 4, MaxEpochs=1, MaxSteps=3, AllPerms=True, **TOG),
                  invariants=INVS, constraints=['Bounded'])
  ctx.model_check('ShuffleBatch', name='ShuffleBatch_M_count',
                  constants=dict(MaxN=6 if big else 5, MaxBS=8 if big else 6, MaxEpochs=3, MaxSteps=5 if big else 4,
                                 AllPerms=False, **TOG),
                  invariants=INVS, constraints=['Bounded'])
  for tog, inv in (('RefillOnlyWhenEmpty', 'WindowsArePermutations'), ('CeilCount', 'CountFormula'),
                   ('MinOfLimits', 'NeverTooMany'), ('ZeroStepsIsZero', 'NeverTooMany')):
    c = dict(MaxN=3, MaxBS=4, MaxEpochs=2, MaxSteps=3, AllPerms=(tog == 'RefillOnlyWhenEmpty'), **TOG)
    c[tog] = False
    ctx.model_check('ShuffleBatch', expect=inv, name=f'ShuffleBatch_ctl_{tog}', constants=c, invariants=INVS,
                    constraints=['Bounded'], coverage=False)
  ctx.require_actions(['Loop', 'RefillStep', 'Take', 'Emit'])

  rng = ctx.rng
  trs = []

  def add(cfg, variant, chain, cap, style):
    n, bs, epochs, steps, drop, skip, seed = cfg
    first, second, unchanged = real_stream(fedjax, n, bs, epochs, steps, drop, skip, seed, variant, chain, cap=cap,
                                           interleave=(style == 'interleaved'))
    trs.append(mk_trace(cfg, first, second, unchanged, cap is not None, {'style': style, 'features': variant, 'chain': chain}))
    if style == 'interleaved':
      trs.append(mk_trace(cfg, second, first, unchanged, cap is not None, {'style': 'interleaved-b', 'features': variant, 'chain': chain}))
    draws = len(first) * bs
    ctx.case(key=(cfg, style), nontrivial=draws > n or (bs % n != 0 and draws > 0))

  # leg R: the count table, exhaustively for small N (finite streams only), skip_shuffle and seeded
  maxn = 12 if big else 8
  count_cases = 0
  for n in range(1, maxn + 1):
    for bs in range(1, maxn + 3):
      for epochs in (NONE, 1, 2, 3):
        for steps in (NONE, 0, 1, 2, 5):
          if epochs == NONE and steps == NONE:
            continue
          for drop in (False, True):
            if not big and (n + bs + epochs + steps + drop) % 3:
              continue
            add((n, bs, epochs, steps, drop, bool((n + bs) % 2), (n * 7 + bs) % 5), 'A', 0, None, 'sequential')
            count_cases += 1
  ctx.leg('R', count_table_cases=count_cases)
  # leg T: larger random streams
  ntr = 1200 if big else 220
  for _ in range(ntr):
    n = rng.choice([1, 2, rng.randint(3, 40), rng.randint(3, 40), rng.randint(8, 24)])
    bs = rng.choice([1, rng.randint(1, 50), rng.randint(1, 12), n, n + 1, max(1, n - 1)])
    epochs = rng.choice([NONE, 1, 2, 3, 4])
    steps = rng.choice([NONE, NONE, 0, 1, rng.randint(2, 12)])
    drop = rng.random() < .4
    skip = rng.random() < .2
    seed = rng.choice([None, 0, rng.randint(1, 10**6)])
    cap = None
    if epochs == NONE and steps == NONE:
      cap = rng.randint(1, 8) + (3 * n) // bs
    style = rng.choice(['sequential', 'sequential', 'interleaved'])
    add((n, bs, epochs, steps, drop, skip, seed), rng.choice(bat.FEATURE_SETS), rng.choice(list(bat.CHAINS)), cap, style)
  consts = dict(MaxN=1, MaxBS=1, MaxEpochs=1, MaxSteps=1, AllPerms=False, **TOG)
  verdicts, _ = vtraces.validate_batch(ctx, 'ShuffleBatchTrace', trs, consts, 'T',
                                       strip=('meta',))
  for t, v in zip(trs, verdicts):
    if v.ok:
      continue
    cfg = {k: t[k] for k in ('n', 'bs', 'epochs', 'steps', 'drop', 'skip')}
    cfg.update(t['meta'])
    if v.kind == 'violated':
      ctx.violation(f'trace:{v.inv}', f'real shuffled stream violates {v.inv} for {cfg} (None is -1); stream={t["stream"][:60]}',
                    replay={'cfg': cfg, 'trace': t})
    else:
      ctx.violation(f'trace:rejected@{v.event["e"]}', f'real shuffled stream is not a behaviour of ShuffleBatch for {cfg}: '
                    f'event #{v.at} {v.event} in spec state {v.state}', replay={'cfg': cfg, 'trace': t})
  ctx.leg('T', traces=len(trs))
  ctx.sample({'leg': 'T', 'trace': {k: v for k, v in trs[-1].items() if k != 'again'}})

  import copy
  import shutil
  bad = copy.deepcopy(next(t for t in trs if t['n'] >= 4 and len(t['stream']) >= t['n'] and not t['skip']))
  bad['stream'][1] = bad['stream'][0]
  bad['events'][0]['ids'] = bad['stream'][:bad['bs']]
  sub = type(ctx)(ctx.pid + '_ctl', ctx.tier, ctx.seed)
  vs, _ = vtraces.validate_batch(sub, 'ShuffleBatchTrace', [bad], consts, 'ctl')
  ok = not vs[0].ok
  ctx.controls.append({'run': 'binding: a duplicate inside the first window', 'expected_violation': 'WindowsArePermutations', 'got': repr(vs[0]), 'ok': ok})
  shutil.rmtree(sub.scratch, ignore_errors=True)
  if not ok:
    raise Machinery('binding control: corrupted trace accepted')
