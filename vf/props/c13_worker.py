"""Runs real client samplers in a separate process (own PYTHONHASHSEED) and prints what they returned as JSON."""
import hashlib
import json
import sys

import numpy as np


def build_fd(fedjax, kind, ids, path=None):
  data = {cid: {'x': np.arange(i + 1, dtype=np.int32) + 100 * i, 'who': np.full((i + 1,), i, np.int32)}
          for i, cid in enumerate(ids)}
  if kind == 'mem':
    return fedjax.InMemoryFederatedData(data), data
  if kind == 'memstr':
    # the same id population as str objects (trailing NULs and prefixes included); in-memory data accepts any hashable id
    sdata = {cid.decode('latin1'): v for cid, v in data.items()}
    return fedjax.InMemoryFederatedData(sdata), sdata
  if kind == 'subsetdup':
    # a subset view built from a LIST that names two clients twice: still one entry per client
    more = dict(data)
    more[b'\xff\xff'] = {'x': np.arange(2, dtype=np.int32) - 7, 'who': np.full((2,), -1, np.int32)}
    base = fedjax.InMemoryFederatedData(more)
    lst = list(ids)
    return fedjax.SubsetFederatedData(base, lst + lst[:2]), data
  if kind in ('subset', 'slice'):
    # derived views of a larger in-memory dataset (two more clients after the last id)
    more = dict(data)
    for j, cid in enumerate((b'\xff\xff', b'\xff\xff\x01')):
      more[cid] = {'x': np.arange(2, dtype=np.int32) - 7 - j, 'who': np.full((2,), -1, np.int32)}
    base = fedjax.InMemoryFederatedData(more)
    if kind == 'subset':
      return fedjax.SubsetFederatedData(base, list(ids)), data
    return base.slice(start=None, stop=max(ids) + b'\x00'), data
  from fedjax.core import sqlite_federated_data as sq  # pylint: disable=g-import-not-at-top
  if kind == 'sqlsub':
    return fedjax.SubsetFederatedData(sq.SQLiteFederatedData.new(path), list(ids)), data
  return sq.SQLiteFederatedData.new(path), data


def describe(sample, data, all_ids):
  ids = [c for c, _, _ in sample]
  hexid = lambda c: (c.encode('latin1') if isinstance(c, str) else c).hex()
  keys = [np.asarray(k).tobytes().hex() for _, _, k in sample]
  ds_ok = all(c in data and np.array_equal(ds.all_examples()['x'], data[c]['x']) for c, ds, _ in sample)
  return {
      'ids': [hexid(c) for c in ids],
      'keys': keys,
      'no_repeat': len(set(ids)) == len(ids),
      'ids_from_dataset': all(c in all_ids for c in ids),
      'dataset_matches_id': bool(ds_ok),
      'id_types_ok': all(type(c) is type(next(iter(data))) for c in ids),
      'digest': hashlib.sha1(repr(([hexid(c) for c in ids], keys)).encode()).hexdigest(),
  }


def main():
  job = json.load(sys.stdin)
  import fedjax  # pylint: disable=g-import-not-at-top
  ids = [bytes.fromhex(h) for h in job['ids']]
  fd, data = build_fd(fedjax, job['fd_kind'], ids, job.get('path'))
  out = []
  sampler = None

  class Flaky:
    """The dataset, except that an armed get_clients fails once (after handing out its first client) like an I/O error."""

    def __init__(self, inner):
      self._inner, self.armed = inner, False

    def get_clients(self, client_ids):
      it = self._inner.get_clients(client_ids)
      if self.armed:
        self.armed = False
        first = True
        for item in it:
          if not first:
            raise OSError('injected read failure')
          first = False
          yield item
        raise OSError('injected read failure')
      yield from it

    def __getattr__(self, a):
      return getattr(self._inner, a)

  flaky = Flaky(fd)
  # 'noise': another sampler object over the same dataset, with another cohort size and seed, samples the SAME round right
  # before every sample of the sampler under observation (a training and an evaluation sampler living side by side)
  other, cur_round = None, None
  if job.get('noise') and job['kind'] == 'get':
    oc = 1 if job['cohort'] > 1 else min(2, len(ids))
    other = fedjax.client_samplers.UniformGetClientSampler(fd, oc, job['seed'] + 1, start_round_num=0)
  for op in job['ops']:
    if op['op'] in ('new', 'set_round'):
      cur_round = op['r']
    if other is not None and op['op'] == 'sample' and cur_round is not None:
      try:
        other.set_round_num(cur_round)
        list(other.sample())
      except Exception:  # pylint: disable=broad-except
        pass
      cur_round += 1
    if op['op'] == 'new':
      if job['kind'] == 'get':
        sampler = fedjax.client_samplers.UniformGetClientSampler(flaky, job['cohort'], job['seed'], start_round_num=op['r'])
      else:
        sampler = fedjax.client_samplers.UniformShuffledClientSampler(
            fd.shuffled_clients(buffer_size=job['buffer'], seed=job['seed']), job['cohort'], start_round_num=op['r'])
      out.append({'e': 'New', 'r': op['r']})
    elif op['op'] == 'sample_fail':
      if job['kind'] != 'get':
        continue
      flaky.armed = True
      try:
        list(sampler.sample())
        out.append({'e': 'SampleFailed', 'note': 'no failure reached the caller'})
      except OSError:
        out.append({'e': 'SampleFailed'})
      except Exception as ex:  # pylint: disable=broad-except
        # some other error than the injected one: reported like a sample that returned nonsense
        out.append({'e': 'Sample', 'ids': [], 'keys': [], 'no_repeat': False, 'ids_from_dataset': False, 'dataset_matches_id': False, 'id_types_ok': False,
                    'cohort_size_ok': False, 'digest': 'exception ' + type(ex).__name__, 'error': f'{type(ex).__name__}: {str(ex)[:80]}'})
      flaky.armed = False
    elif op['op'] == 'set_round':
      sampler.set_round_num(op['r'])
      out.append({'e': 'SetRound', 'r': op['r']})
    else:
      try:
        d = describe(sampler.sample(), data, set(data))
      except Exception as ex:  # pylint: disable=broad-except
        d = {'ids': [], 'keys': [], 'no_repeat': False, 'ids_from_dataset': False, 'dataset_matches_id': False, 'id_types_ok': False,
             'digest': 'exception ' + type(ex).__name__, 'error': f'{type(ex).__name__}: {str(ex)[:80]}'}
      d['e'] = 'Sample'
      d['cohort_size_ok'] = len(d['ids']) == job['cohort']
      out.append(d)
  json.dump(out, sys.stdout)


if __name__ == '__main__':
  main()
