"""C08 - all federated-dataset implementations expose the same mapping.

Leg M: TLC on FedData.tla: the materialised-id-set representation (in-memory, subset wrapper) and the accumulated
       range representation (SQLite, intersect_slice_ranges) define the same ids along every history; parents never
       change; preprocessors accumulate in order.  Sensitivity control: a re-slice that replaces the range.
Leg R: every history TLC enumerates (small N) is applied simultaneously to InMemoryFederatedData,
       SQLiteFederatedData and SubsetFederatedData over each; after every operation every view created so far is
       re-observed through all access paths and compared with the specification's view.
Leg T: long random histories over the 7 corner-case ids, observations validated by TLC (FedDataTrace).
"""
import os
import shutil

import numpy as np

from vf import traces as vtraces
from vf.core import Machinery

ALL_IDS = [b'\x00', b'a', b'a\x00', b'a\x00\x00', b'ab', b'b', b'\xff']
EXTRA_BOUNDS = [b'', b'\x00\x01', b'A', b'a\x00\x00\x00', b'aa', b'az', b'abc', b'c', b'b\x00', b'\xff\x00', b'\xff\xff',
                b'a\x01', b'`']
INVS = ['RepresentationsAgree', 'SliceNeverEnlarges', 'PreprocessOrder']
IMPLS = ('mem', 'sql', 'sub_mem', 'sub_sql')


class World:
  """The logical dataset and its real implementations."""

  def __init__(self, ctx, n, tag):
    import fedjax  # pylint: disable=g-import-not-at-top
    from fedjax.core import sqlite_federated_data as sq  # pylint: disable=g-import-not-at-top
    self.fedjax = fedjax
    self.ids = sorted(ALL_IDS[:n]) if n < 7 else sorted(ALL_IDS)
    if n < 7:
      # keep the nasty ones: trailing zero bytes and prefixes
      pool = [b'a', b'a\x00', b'a\x00\x00', b'\x00', b'\xff', b'ab', b'b']
      self.ids = sorted(pool[:n])
    self.n = n
    self.rank = {cid: i + 1 for i, cid in enumerate(self.ids)}
    self.sizes = {cid: (0 if self.rank[cid] == 3 else (self.rank[cid] % 3) + 1) for cid in self.ids}
    self.data = {}
    for cid in self.ids:
      m = self.sizes[cid]
      self.data[cid] = {'cid': np.full((m,), self.rank[cid], np.int32), 'j': np.arange(m, dtype=np.int32),
                        't': np.zeros((m,), np.int64)}
    self.bounds = {}
    for s in self.ids + EXTRA_BOUNDS:
      low = 1 + sum(1 for c in self.ids if c < s)
      self.bounds.setdefault(low, []).append(s)
    path = os.path.join(ctx.scratch, f'fd_{tag}.sqlite')
    if os.path.exists(path):
      os.remove(path)
    order = list(self.ids)
    ctx.rng.shuffle(order)  # rowid order != sorted order
    with sq.SQLiteFederatedDataBuilder(path) as b:
      b.add_many([(cid, self.data[cid]) for cid in order])
    self.path = path
    mem = fedjax.InMemoryFederatedData(dict(self.data))
    sql = sq.SQLiteFederatedData.new(path)
    def subset_of(base):
      try:
        return fedjax.SubsetFederatedData(base, set(self.ids))
      except Exception as ex:  # pylint: disable=broad-except
        return f'{type(ex).__name__}: {ex}'[:120]     # observed as an erroneous view (never a harness failure)

    self.roots = {'mem': mem, 'sql': sql,
                  'sub_mem': subset_of(fedjax.InMemoryFederatedData(dict(self.data))),
                  'sub_sql': subset_of(sq.SQLiteFederatedData.new(path))}
    rank = self.rank

    def ctag(t):
      def fn(cid, ex):
        ok = len(ex['cid']) == 0 or int(ex['cid'][0]) == rank.get(cid, -1)
        return {**ex, 't': ex['t'] * 10 + t if ok else ex['t'] * 0 - 999}
      return fn

    def btag(t):
      return lambda ex: {**ex, 't': ex['t'] * 10 + t}

    self.ctag = {t: ctag(t) for t in (1, 2)}
    self.btag = {t: btag(t) for t in (3, 4)}

  def bound(self, rng, low):
    if low == -1:
      return None
    return rng.choice(self.bounds[low])

  # ---- applying an operation to one implementation's view; returns the new view or the exception name
  def apply(self, rng_choice, view, op):
    fj = self.fedjax
    try:
      if op['op'] == 'slice':
        return view.slice(op['ca'], op['cb'])
      if op['op'] in ('subset', 'subset_bad'):
        return fj.SubsetFederatedData(view, {self.ids[r - 1] for r in op['s']})
      if op['op'] == 'pre_client':
        return view.preprocess_client(self.ctag[op['t']])
      if op['op'] == 'pre_batch':
        return view.preprocess_batch(self.btag[op['t']])
    except Exception as ex:  # pylint: disable=broad-except
      return type(ex).__name__
    raise Machinery('unknown op')

  # ---- observing one view through every access path
  def observe(self, fd, rng):
    if isinstance(fd, str):
      return {'ids': [-1], 'tags': [], 'has_rows': False, 'paths_agree': False, 'keyerror_outside': False,
              'deterministic': False, 'shuffled_once': False, 'sizes_ok': False, 'error': fd}
    rank = self.rank
    notes = []

    def tags_of(ds):
      t = ds.all_examples()['t']
      if len(t) == 0:
        return None
      v = int(t[0])
      if v < 0:
        return [-1]
      if not np.all(t == v):
        return [-2]
      return [int(c) for c in str(v)] if v else []

    try:
      ids1 = list(fd.client_ids())
      ids2 = list(fd.client_ids())
      deterministic = ids1 == ids2
      idset = sorted(rank[c] for c in ids1)
      paths = True
      if fd.num_clients() != len(ids1) or len(set(ids1)) != len(ids1):
        paths = False
        notes.append('num_clients')
      sizes = dict(fd.client_sizes())
      sizes_ok = sorted(sizes) == sorted(ids1) and all(sizes[c] == self.sizes[c] for c in ids1)
      sizes_ok = sizes_ok and all(fd.client_size(c) == self.sizes[c] for c in ids1)
      cl = list(fd.clients())
      if sorted(c for c, _ in cl) != sorted(ids1):
        paths = False
        notes.append('clients')
      cl2 = [c for c, _ in fd.clients()]
      deterministic = deterministic and cl2 == [c for c, _ in cl]
      tags = None
      has_rows = False
      for c, ds in cl:
        ex = ds.all_examples()
        if len(ex['cid']) != self.sizes[c] or (len(ex['cid']) and (int(ex['cid'][0]) != rank[c] or list(ex['j']) != list(range(self.sizes[c])))):
          paths = False
          notes.append('examples')
        tg = tags_of(ds)
        if tg is not None:
          has_rows = True
          if tags is None:
            tags = tg
          elif tags != tg:
            paths = False
            notes.append('tags differ between clients')
      req = list(ids1)
      rng.shuffle(req)
      if req:     # a request may name a client more than once (sampling with replacement): one entry per occurrence
        req = req + [req[0]] + [req[len(req) // 2]]
        req.insert(1, req[0])
      # the request is any iterable: a list, or a one-shot iterator / generator
      got = list(fd.get_clients((req, iter(req), (c for c in req))[len(req) % 3]))
      if [c for c, _ in got] != req:
        paths = False
        notes.append('get_clients order')
      for c, ds in got:
        tg = tags_of(ds)
        if tg is not None and tg != tags:
          paths = False
          notes.append('get_clients tags')
        if len(ds) != self.sizes[c]:
          paths = False
      for c in ids1:
        ds = fd.get_client(c)
        tg = tags_of(ds)
        if (tg is not None and tg != tags) or len(ds) != self.sizes[c]:
          paths = False
          notes.append('get_client')
      # ids outside the view raise KeyError on every point lookup
      ke = True
      outside = [c for c in self.ids if c not in ids1] + [b'zz-not-there', b'a\x00\x00\x00']
      for c in outside:
        for f in (lambda: fd.get_client(c), lambda: fd.client_size(c), lambda: list(fd.get_clients([c]))):
          try:
            f()
            ke = False
            notes.append(f'no KeyError for {c!r}')
          except KeyError:
            pass
          except Exception as ex:  # pylint: disable=broad-except
            ke = False
            notes.append(f'{type(ex).__name__} for {c!r}')
      sh = True
      if ids1:
        for b in (1, 3):
          it = fd.shuffled_clients(buffer_size=b, seed=7)
          for _ in range(2):
            p = [next(it)[0] for _ in range(len(ids1))]
            if sorted(p) != sorted(ids1):
              sh = False
      # two scans of the same view alive at once must not disturb each other
      if ids1:
        pairs = list(zip(fd.clients(), fd.clients()))
        if [pr[0][0] for pr in pairs] != [c for c, _ in cl] or [pr[1][0] for pr in pairs] != [c for c, _ in cl]:
          deterministic = False
          notes.append('interleaved clients() scans')
        it = fd.shuffled_clients(buffer_size=2, seed=11)
        ref_it = fd.shuffled_clients(buffer_size=2, seed=11)
        ref = [next(ref_it)[0] for _ in range(2 * len(ids1))]
        half = [next(it)[0] for _ in range(max(1, len(ids1) // 2))]
        list(fd.clients())
        rest = [next(it)[0] for _ in range(2 * len(ids1) - len(half))]
        if half + rest != ref:
          sh = False
          notes.append('shuffled pass disturbed by another scan')
      return {'ids': idset, 'tags': tags or [], 'has_rows': has_rows, 'paths_agree': paths, 'keyerror_outside': ke,
              'deterministic': deterministic, 'shuffled_once': sh, 'sizes_ok': bool(sizes_ok), 'notes': notes[:4]}
    except Exception as ex:  # pylint: disable=broad-except
      return {'ids': [-1], 'tags': [], 'has_rows': False, 'paths_agree': False, 'keyerror_outside': False,
              'deterministic': False, 'shuffled_once': False, 'sizes_ok': False,
              'error': f'{type(ex).__name__}: {ex}'[:120]}


def run_history(world, rng, ops):
  """Applies abstract ops (with v, a, b / s / t) to all implementations; returns trace events."""
  views = {k: [world.roots[k]] for k in IMPLS}
  events = []
  for op in ops:
    op = dict(op)
    if op['op'] == 'slice':
      op['ca'], op['cb'] = world.bound(rng, op['a']), world.bound(rng, op['b'])
    new = {k: world.apply(rng.choice, views[k][op['v'] - 1], op) for k in IMPLS}
    ev = {k: v for k, v in op.items() if k not in ('ca', 'cb')}
    ev['e'] = op['op']
    if op['op'] == 'slice':
      ev['concrete'] = [repr(op['ca']), repr(op['cb'])]
    if op['op'] == 'subset_bad':
      ev['raised'] = [new[k] if isinstance(new[k], str) else 'none' for k in IMPLS]
      events.append(ev)
      continue
    for k in IMPLS:
      views[k].append(new[k])
    nviews = len(views['mem'])
    ev['obs'] = [[dict(world.observe(views[k][j], rng), impl=k) for k in IMPLS] for j in range(nviews)]
    events.append(ev)
  events.append({'e': 'End'})
  return events


def first_bad(events, expected_views):
  """Leg R comparison: returns a description of the first observation that differs from the specification."""
  for ei, ev in enumerate(events):
    if 'obs' not in ev:
      continue
    for j, per_impl in enumerate(ev['obs']):
      exp = expected_views[j]
      for o in per_impl:
        flags = all(o[f] for f in ('paths_agree', 'keyerror_outside', 'deterministic', 'shuffled_once', 'sizes_ok'))
        if o['ids'] != sorted(exp['ids']) or not flags or (o['ids'] and o['has_rows'] and o['tags'] != list(exp['tags'])):
          return ei, j, o, exp
  return None


def run(ctx):
  big = ctx.thorough
  rng = ctx.rng
  ctx.rule = ('case = a history of view operations (slice with abstract bounds realised by concrete byte strings, '
              'subset, preprocess_client, preprocess_batch) applied to 4 real implementations; non-trivial = history '
              'containing a non-identity slice or a proper subset; distinct by the operation sequence')
  ctx.assumptions += ['iteration order is compared only for determinism (same view, two calls)',
                      'client-level preprocessors used here are size-preserving',
                      'shuffled_clients is not called on an empty view (it would loop forever by construction)']
  r = ctx.model_check('FedData', name='FedData_M', constants=dict(N=4, MaxDepth=3 if big else 2, MaxSubset=1, IntersectRanges=True),
                      invariants=INVS + ['Emit'], properties=['ParentUnchanged'], workers=1)
  ctx.model_check('FedData', name='FedData_M7', constants=dict(N=7, MaxDepth=2, MaxSubset=1, IntersectRanges=True),
                  invariants=INVS, properties=['ParentUnchanged'])
  ctx.model_check('FedData', expect='RepresentationsAgree', name='FedData_ctl', constants=dict(N=4, MaxDepth=2, MaxSubset=1, IntersectRanges=False),
                  invariants=INVS, coverage=False)
  ctx.require_actions(['SliceStep', 'SubsetStep', 'PreClientStep', 'PreBatchStep'])

  # ---- leg R
  w4 = World(ctx, 4, 'r')
  cases = r.json
  step = 1 if big else 3
  replayed = 0
  todo = [ci for ci in range(0, len(cases), step) if not (big and len(cases[ci]['hist']) == 3 and ci % 7)]
  if len(todo) > 6000:      # (depth 3 emits > 10^5 histories; about 20 replays per second)
    todo = sorted(rng.sample(todo, 6000))
  for ci in todo:
    c = cases[ci]
    ops = [dict(h) for h in c['hist']]
    ev = run_history(w4, rng, ops)
    replayed += 1
    nontrivial = any((h['op'] == 'slice' and (h['a'], h['b']) != (-1, -1)) or h['op'] == 'subset' for h in ops)
    ctx.case(key=('R', ci), nontrivial=nontrivial)
    bad = first_bad(ev, c['views'])
    if bad:
      ei, j, o, exp = bad
      handle(ctx, ops, ei, j, o, exp, ev)
  ctx.trace_ok(replayed)
  ctx.leg('R', behaviours=len(cases), replays=replayed)
  ctx.sample({'leg': 'R', 'history': cases[len(cases) // 2]['hist'], 'expected_views': cases[len(cases) // 2]['views']})

  # ---- leg T
  w7 = World(ctx, 7, 't')
  trs = []
  for _ in range(260 if big else 45):
    depth = rng.randint(1, 5)
    ops = []
    model = [set(range(1, 8))]
    for _ in range(depth):
      v = rng.randint(1, len(model))
      kind = rng.choice(['slice', 'slice', 'slice', 'subset', 'subset_bad', 'pre_client', 'pre_batch'])
      if kind == 'slice':
        a = rng.choice([-1] + sorted(w7.bounds))
        b = rng.choice([-1] + sorted(w7.bounds))
        ops.append({'op': 'slice', 'v': v, 'a': a, 'b': b})
        model.append({x for x in model[v - 1] if (a == -1 or a <= x) and (b == -1 or x < b)})
      elif kind == 'subset':
        cur = sorted(model[v - 1])
        s = [x for x in cur if rng.random() < .6]
        ops.append({'op': 'subset', 'v': v, 's': s})
        model.append(set(s))
      elif kind == 'subset_bad':
        outside = [x for x in range(1, 8) if x not in model[v - 1]]
        if not outside:
          continue
        s = sorted(set([rng.choice(outside)] + [x for x in model[v - 1] if rng.random() < .5]))
        ops.append({'op': 'subset_bad', 'v': v, 's': s})
      elif kind == 'pre_client':
        ops.append({'op': 'pre_client', 'v': v, 't': rng.choice([1, 2])})
        model.append(set(model[v - 1]))
      else:
        ops.append({'op': 'pre_batch', 'v': v, 't': rng.choice([3, 4])})
        model.append(set(model[v - 1]))
    ev = run_history(w7, rng, ops)
    trs.append({'events': ev, 'meta': {'ops': ops}})
    ctx.case(key=('T', repr(ops)), nontrivial=any(o['op'] in ('slice', 'subset') for o in ops))
  consts = dict(N=7, MaxDepth=99, MaxSubset=1, IntersectRanges=True)
  verdicts, _ = vtraces.validate_batch(ctx, 'FedDataTrace', trs, consts, 'T')
  for t, v in zip(trs, verdicts):
    if v.ok:
      continue
    ops = t['meta']['ops']
    if v.kind == 'rejected' and 'obs' in v.event:
      # locate the offending observation for the message / finding key
      found = None
      for j, per_impl in enumerate(v.event['obs']):
        for o in per_impl:
          if o.get('error') or not all(o[f] for f in ('paths_agree', 'keyerror_outside', 'deterministic', 'shuffled_once', 'sizes_ok')):
            found = (j, o)
            break
        if found:
          break
      if found:
        handle(ctx, ops, v.at - 1, found[0], found[1], None, t['events'])
        continue
    ctx.violation(f'trace:{v.kind}:{v.inv or v.event["e"]}', f'history {ops}: {v.kind} {v.inv or ""} at event #{v.at} '
                  f'{ {k: x for k, x in v.event.items() if k != "obs"} }; spec views {v.state}',
                  replay={'ops': ops, 'event': v.event, 'spec_state': v.state})
  ctx.leg('T', traces=len(trs))
  ctx.sample({'leg': 'T', 'ops': trs[0]['meta']['ops']})

  # binding control: an id smuggled into an observation must be rejected
  import copy
  good = next((t for t, v in zip(trs, verdicts) if v.ok and any('obs' in e for e in t['events'])), None)
  if good is None:
    ctx.controls.append({'run': 'binding control skipped: no accepted trace to corrupt', 'ok': bool(ctx.violations)})
    if not ctx.violations:
      raise Machinery('no trace was accepted and no violation recorded')
    return
  bad = copy.deepcopy(good)
  for e in bad['events']:
    if 'obs' in e:
      o = e['obs'][-1][1]
      o['ids'] = sorted(set(o['ids']) ^ {1})
      break
  sub = type(ctx)(ctx.pid + '_ctl', ctx.tier, ctx.seed)
  vs, _ = vtraces.validate_batch(sub, 'FedDataTrace', [bad], consts, 'ctl')
  ok = not vs[0].ok
  ctx.controls.append({'run': 'binding: one implementation shows a wrong id set', 'expected_violation': 'rejected', 'got': repr(vs[0])[:200], 'ok': ok})
  shutil.rmtree(sub.scratch, ignore_errors=True)
  if not ok:
    raise Machinery('binding control: corrupted trace accepted')


def handle(ctx, ops, ei, j, o, exp, events):
  err = o.get('error', '')
  impl = o.get('impl')
  if 'IndexError' in err and impl in ('mem', 'sub_mem'):
    key = 'inmemory-empty-view-IndexError'
  else:
    flags = [f for f in ('paths_agree', 'keyerror_outside', 'deterministic', 'shuffled_once', 'sizes_ok') if not o.get(f)]
    key = f'{impl}:' + (err.split(':')[0] if err else ('ids' if exp is not None and o['ids'] != sorted(exp['ids']) else (','.join(flags) or 'tags')))
  ctx.violation(key, f'after operation #{ei + 1} of history {ops}, view {j + 1} on implementation {impl} shows '
                f'{ {k: v for k, v in o.items()} }' + (f' but the specification says ids={sorted(exp["ids"])} tags={list(exp["tags"])}' if exp else ''),
                replay={'ops': ops, 'view': j + 1, 'observation': o, 'expected': exp})
