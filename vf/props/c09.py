"""C09 - an interrupted experiment resumes to the uninterrupted result.

Leg M: TLC checks spec/Experiment.tla (all crash interleavings, liveness) over a grid of configurations, plus
       sensitivity controls (toggles re-creating deviations must make TLC report the matching invariant).
Leg T: the real run_federated_experiment is executed under the fault interposer; the graph of directory states
       reachable by crashes is explored breadth-first (every write effect is a crash point, every Write also with
       partial data), each incarnation is one trace validated by TLC against ExperimentTrace (all invariants at
       every step, real directory snapshot bound after every effect).
"""
import collections
import hashlib
import json
import os
import pickle
import re
import shutil

import numpy as np

from vf import faults
from vf import traces as vtraces
from vf.core import Machinery

INVARIANTS = ['VisibleComplete', 'NewestWins', 'ResumePoint', 'SamplerSeated', 'StateCorrect', 'RoundMatchesState',
              'AtMostKeep', 'NoFailure', 'DecoysUntouched', 'ResultCorrect']
TOGGLES_OK = dict(AtomicSave=True, FinalUsesLast=True, NewestFirst=True, StrictFilter=True, Reseat=True)
CONTROLS = {'AtomicSave': 'VisibleComplete', 'FinalUsesLast': 'NoFailure', 'NewestFirst': 'NewestWins',
            'StrictFilter': 'NoFailure', 'Reseat': 'SamplerSeated'}
CKPT_RE = re.compile(r'^checkpoint_([0-9]{8})$')
DECOYS = ['checkpoint_123', 'checkpoint_00000003.bak', 'checkpoint_000000010']


# ------------------------------------------------------------------ leg M
def leg_m(ctx):
  if ctx.thorough:
    grid = [(n, f, k, e) for n in (1, 2, 3, 4, 5, 6) for f in (0, 1, 2, 3, 4) for k in (1, 2, 3) for e in (0, 1, 2)
            if not (f == 0 and k > 1)]
    maxc = 3
  else:
    grid = [(1, 1, 1, 0), (3, 1, 1, 1), (4, 2, 2, 0), (5, 2, 1, 2), (5, 3, 2, 1), (4, 0, 1, 1)]
    maxc = 2
  n = 0
  for (nr, f, k, e) in grid:
    consts = dict(NumRounds=nr, CkptFreq=f, Keep=k, EvalFreq=e, MaxCrashes=maxc, HasFinalEval=True, NumDecoys=1)
    consts.update(TOGGLES_OK)
    ctx.model_check('Experiment', name=f'Experiment_M_{nr}_{f}_{k}_{e}', constants=consts, spec='Spec',
                    invariants=INVARIANTS, properties=['Completes', 'OnlyRetentionDeletes'])
    n += 1
  consts = dict(NumRounds=4, CkptFreq=2, Keep=1, EvalFreq=0, MaxCrashes=2, HasFinalEval=False, NumDecoys=0)
  consts.update(TOGGLES_OK)
  ctx.model_check('Experiment', name='Experiment_M_nofinal', constants=consts, spec='Spec', invariants=INVARIANTS,
                  properties=['Completes'], coverage=False)
  # sensitivity: each deviation must be reported
  for tog, inv in CONTROLS.items():
    consts = dict(NumRounds=5, CkptFreq=2, Keep=2, EvalFreq=1, MaxCrashes=2, HasFinalEval=True, NumDecoys=1)
    consts.update(TOGGLES_OK)
    consts[tog] = False
    ctx.model_check('Experiment', expect=inv, name=f'Experiment_ctl_{tog}', constants=consts, spec='Spec',
                    invariants=INVARIANTS, coverage=False)
  ctx.leg('M', configurations=n + 1, controls=len(CONTROLS))
  ctx.require_actions(['LoadFresh', 'Load', 'Seat', 'Sample', 'Apply', 'SaveOpen', 'SaveWrite', 'SaveClose',
                       'SaveRename', 'DelStep', 'DelDone', 'Saved', 'PeriodicEval', 'EndRound', 'FinalEval',
                       'FinalOpen', 'FinalWrite', 'Return', 'Crash', 'Rerun'])


# ------------------------------------------------------------------ the real system under test
class Harness:
  """Real fedjax experiment loop with harness-supplied deterministic algorithm, sampler and eval functions."""

  def __init__(self, root, num_rounds, ckpt_freq, keep, eval_freq, seed=0):
    import fedjax  # pylint: disable=g-import-not-at-top
    from fedjax.training import federated_experiment as fe  # pylint: disable=g-import-not-at-top
    from fedjax.training import logging as fl  # pylint: disable=g-import-not-at-top
    self.fedjax = fedjax
    self.fe = fe
    self.root = root
    self.cfg = (num_rounds, ckpt_freq, keep, eval_freq)
    # TensorBoard is not installed here: summaries are not part of C09 (DESIGN 3.5)
    fl.Logger.log = lambda self_, *a, **k: None
    cds = {}
    for i in range(7):
      cds[b'cl\x00' + bytes([65 + i])] = {'x': np.arange(i + 1, dtype=np.int32)}
    self.fd = fedjax.InMemoryFederatedData(cds)
    # half of the configurations use full participation: the cohorts then differ only in their ORDER (which decides which
    # client gets which PRNG key), and the ordered tuple identifies the round
    self.cohort_size = 7 if (num_rounds + ckpt_freq) % 2 == 0 else 2
    # cohort table: round number -> client ids (must be pairwise distinct to identify the round)
    self.seed = seed
    while True:
      tab = {}
      for r in range(0, num_rounds + 3):
        s = fedjax.client_samplers.UniformGetClientSampler(self.fd, self.cohort_size, self.seed)
        s.set_round_num(r)
        tab[tuple(c[0] for c in s.sample())] = r
      if len(tab) == num_rounds + 3:
        break
      self.seed += 1
    self.cohort_of = tab
    self.log = None
    self.notes = []
    self.trigger = None      # leg R: predicate(kind, fields) naming the spec crash point to realise
    self.cur_round = 0
    self.in_eval = False

  def maybe_crash(self, kind, **fields):
    if self.trigger is not None and self.trigger(kind, fields):
      raise faults.SimCrash()

  # ---- pieces handed to fedjax ----
  def make_sampler(self):
    h = self
    base = self.fedjax.client_samplers.UniformGetClientSampler

    class LoggingSampler(base):

      def sample(self):
        if h.in_eval:      # (the periodic evaluation's own use of the shared sampler: neither an event nor a crash point)
          return super().sample()
        h.maybe_crash('Sample', r=int(self._round_num))
        out = super().sample()
        h.log.append({'e': 'Sample', 'c': h.cohort_of.get(tuple(c[0] for c in out), -1)})
        return out

      def set_round_num(self, round_num):
        if h.in_eval:
          return super().set_round_num(round_num)
        h.maybe_crash('SetRound', r=int(round_num))
        super().set_round_num(round_num)
        h.log.append({'e': 'SetRound', 'r': int(round_num)})

    return LoggingSampler(self.fd, self.cohort_size, self.seed)

  def make_algorithm(self):
    h = self
    import jax.numpy as jnp  # pylint: disable=g-import-not-at-top

    def init():
      # besides the history: leaves as real server states have them - float32 parameters, low-precision leaves and a
      # weakly typed scalar (a Python-float step size turned into a jax array), whose typing decides the dtype of products
      return {'hist': np.zeros((0,), np.int32), 'params': jnp.zeros((2,), jnp.float32), 'step': jnp.asarray(0.5),
              'half': jnp.ones((2,), jnp.float16), 'bf': jnp.ones((3,), jnp.bfloat16), 'count': np.int64(2**40)}

    def tail_step(state, c):
      return {'params': state['params'] + jnp.float32(c), 'step': state['step'] * 0.5,
              'half': state['half'] * state['step'] + c, 'bf': state['bf'] * state['step'], 'count': state['count'] + np.int64(c)}

    h.tail_step, h.tail_init = tail_step, init

    def apply(state, clients):
      c = h.cohort_of.get(tuple(cid for cid, _, _ in clients), -1)
      h.maybe_crash('Apply', r=len(state['hist']) + 1)
      h.cur_round = len(state['hist']) + 1
      new = dict(tail_step(state, c), hist=np.concatenate([np.asarray(state['hist']), np.array([c], np.int32)]))
      h.log.append({'e': 'Apply', 'st': [int(x) for x in new['hist']]})
      return new, {cid: {} for cid, _, _ in clients}

    return self.fedjax.FederatedAlgorithm(init, apply)

  def make_evals(self, sampler=None):
    h = self
    fe = self.fe
    # with periodic evaluation on: the packaged ModelSampleClientsEvaluationFn runs inside the periodic evaluation on THE
    # SAME sampler object the training loop uses (it seats the sampler at the evaluated round and draws once, which leaves
    # the sampler where the loop expects it)
    shared = None
    if sampler is not None and self.cfg[3] > 0:
      import types  # pylint: disable=g-import-not-at-top
      model = self.fedjax.Model(init=lambda k_: None, apply_for_train=None, apply_for_eval=lambda p_, b_: b_['x'], train_loss=None, eval_metrics={})
      shared_fn = fe.ModelSampleClientsEvaluationFn(sampler, model, self.fedjax.PaddedBatchHParams(batch_size=4))
      shared = lambda state, round_num: shared_fn(types.SimpleNamespace(params=state['params']), round_num)

    class Final(fe.EvaluationFn):

      def __call__(self, state, round_num):
        h.maybe_crash('FinalEval')
        h.log.append({'e': 'FinalEval', 'st': [int(x) for x in state['hist']], 'round': int(round_num)})
        return collections.OrderedDict(state='S' + '.'.join(str(int(x)) for x in state['hist']) + 'E',
                                       round=f'R{int(round_num)}E')

    class Periodic(fe.EvaluationFn):

      def __call__(self, state, round_num):
        h.maybe_crash('PeriodicEval', r=int(round_num))
        h.log.append({'e': 'PeriodicEval', 'st': [int(x) for x in state['hist']], 'round': int(round_num)})
        if shared is not None:
          h.in_eval = True
          try:
            shared(state, round_num)
          finally:
            h.in_eval = False
        return {}

    return {'per': Periodic()}, {'final': Final()}

  # ---- directory projection ----
  def name_of(self, path):
    b = os.path.basename(path)
    m = CKPT_RE.match(b)
    if m:
      return {'k': 'ckpt', 'r': int(m.group(1)), 's': ''}
    if b == 'final.tsv':
      return {'k': 'tsv', 'r': 0, 's': ''}
    return {'k': 'other', 'r': 0, 's': b}

  def snapshot(self):
    out = []
    for b in sorted(os.listdir(self.root)):
      p = os.path.join(self.root, b)
      if not os.path.isfile(p):
        continue
      with open_real(p, 'rb') as f:
        data = f.read()
      out.append([self.name_of(p), self.classify(b, data)])
    return out

  def classify(self, b, data):
    if b == 'final.tsv':
      m = re.fullmatch(r'state\tround\nS([0-9.]*)E\tR(-?[0-9]+)E', data.decode('latin1'))
      if m:
        return {'status': 'complete', 'content': [int(x) for x in m.group(1).split('.') if x], 'round': int(m.group(2))}
      return {'status': 'prefix' if data else 'empty', 'content': [], 'round': 0}
    try:
      obj = pickle.loads(data)
      hist = [int(x) for x in obj['hist']]
      ok = float(np.asarray(obj['params'])[0]) == float(sum(hist))
      if not ok:
        raise ValueError('params do not belong to hist')
      return {'status': 'complete', 'content': hist, 'round': 0}
    except Exception:  # pylint: disable=broad-except
      return {'status': 'prefix' if data else 'empty', 'content': [], 'round': 0}

  def dir_bytes(self):
    d = {}
    for b in sorted(os.listdir(self.root)):
      p = os.path.join(self.root, b)
      if os.path.isfile(p):
        with open_real(p, 'rb') as f:
          d[b] = f.read()
    return d

  def restore(self, d):
    shutil.rmtree(self.root, ignore_errors=True)
    os.makedirs(self.root)
    for b, data in d.items():
      with open_real(os.path.join(self.root, b), 'wb') as f:
        f.write(data)

  # ---- one incarnation ----
  def incarnation(self, crash_at=None, partial=None, trigger=None):
    """Runs the real experiment call once from the current directory; returns (events, n_effects, kinds, outcome)."""
    nr, f, k, e = self.cfg
    self.log = []
    self.trigger = trigger
    self.cur_round = 0
    # a new incarnation is a new process: module-level state of the checkpointing modules does not survive it
    import importlib  # pylint: disable=g-import-not-at-top
    from fedjax.core import serialization as ser_mod  # pylint: disable=g-import-not-at-top
    from fedjax.training import checkpoint as ckpt_mod  # pylint: disable=g-import-not-at-top
    importlib.reload(ser_mod)
    importlib.reload(ckpt_mod)
    cfg = self.fe.FederatedExperimentConfig(root_dir=self.root, num_rounds=nr, checkpoint_frequency=f,
                                            num_checkpoints_to_keep=k, eval_frequency=e)
    smp = self.make_sampler()
    per, fin = self.make_evals(smp)
    alg = self.make_algorithm()
    ip = faults.Interposer(self.root, self.snapshot, self.log, crash_at=crash_at, partial=partial,
                           name_of=self.name_of, crash_pred=trigger)
    outcome = 'return'
    with ip:
      try:
        out = self.fe.run_federated_experiment(alg, alg.init(), smp, cfg,
                                               periodic_eval_fn_map=per, final_eval_fn_map=fin)
        st = [int(x) for x in out['hist']]
        # the rest of the returned state must be what the same rounds give without any interruption (dtype, weak typing, value)
        ref = self.tail_init()
        for c_ in st:
          ref = self.tail_step(ref, c_)
        for kf in ('params', 'step', 'half', 'bf', 'count'):
          a_, b_ = out[kf], ref[kf]
          same = (np.asarray(a_).dtype == np.asarray(b_).dtype and np.array_equal(np.asarray(a_, np.float64), np.asarray(b_, np.float64))
                  and getattr(a_, 'weak_type', None) == getattr(b_, 'weak_type', None) and type(a_).__name__ == type(b_).__name__)
          if not same:
            self.notes.append(f'returned state leaf {kf}: {type(a_).__name__} {np.asarray(a_).dtype} weak={getattr(a_, "weak_type", None)} {np.asarray(a_).tolist()} '
                              f'but the uninterrupted run gives {type(b_).__name__} {np.asarray(b_).dtype} weak={getattr(b_, "weak_type", None)} {np.asarray(b_).tolist()}')
            st = [-7]     # not the state of any history: the specification rejects the Return
            break
        self.log.append({'e': 'Return', 'st': st})
      except faults.SimCrash:
        self.log.append({'e': 'Crash'})
        outcome = 'crash'
      except Exception as ex:  # pylint: disable=broad-except
        self.log.append({'e': 'Fail', 'exc': f'{type(ex).__name__}: {ex}'[:200]})
        outcome = 'fail'
    return self.log, ip.n_effects, ip.effect_kinds, outcome


open_real = open  # bound before any interposer patches builtins.open


def dir_key(d):
  h = hashlib.sha1()
  for b in sorted(d):
    h.update(b.encode() + b'\0' + hashlib.sha1(d[b]).digest())
  return h.hexdigest()


def explore(ctx, cfg, max_depth, partials, decoys, max_nodes=10**9):
  """BFS over the directory states reachable by crashes of the real code. Returns list of traces."""
  root = os.path.join(ctx.scratch, 'exp_%d_%d_%d_%d' % cfg)
  shutil.rmtree(root, ignore_errors=True)
  os.makedirs(root)
  h = Harness(root, *cfg, seed=ctx.seed)
  init = {}
  if decoys:
    for d in DECOYS:
      init[d] = b'decoy ' + d.encode()
  frontier = [(init, 0)]
  seen = {dir_key(init)}
  traces = []
  crash_sites = collections.Counter()
  while frontier:
    nxt = []
    for d0, depth in frontier:
      h.restore(d0)
      init_snap = h.snapshot()
      # the uninterrupted incarnation from this directory state
      ev, n_eff, kinds, outcome = h.incarnation()
      traces.append(mk_trace(h, cfg, init_snap, ev, decoys, {'depth': depth, 'crash_at': None}))
      # a completed run is re-run once more (crash after return / plain re-run)
      if outcome == 'return':
        d1 = h.dir_bytes()
        k1 = dir_key(d1)
        if k1 not in seen and depth + 1 <= max_depth:
          seen.add(k1)
          nxt.append((d1, depth + 1))
      if depth >= max_depth:
        continue
      for i in range(n_eff):
        variants = [None] + (list(partials) if kinds[i] == 'Write' else [])
        for part in variants:
          h.restore(d0)
          ev2, _, _, out2 = h.incarnation(crash_at=i, partial=part)
          if out2 != 'crash':
            # the run did not reach effect i this time: nondeterministic effect sequence
            raise Machinery(f'crash point {i} not reached on replay from the same directory (outcome {out2})')
          crash_sites[kinds[i] + ('+partial' if part else '')] += 1
          traces.append(mk_trace(h, cfg, init_snap, ev2, decoys, {'depth': depth, 'crash_at': i, 'partial': part}))
          d1 = h.dir_bytes()
          k1 = dir_key(d1)
          if k1 not in seen and len(seen) < max_nodes:
            seen.add(k1)
            nxt.append((d1, depth + 1))
    frontier = nxt
  shutil.rmtree(root, ignore_errors=True)
  return traces, len(seen), crash_sites


def mk_trace(h, cfg, init_snap, events, decoys, meta):
  names = []

  def add(n):
    if n not in names:
      names.append(n)

  for n, _ in init_snap:
    add(n)
  for ev in events:
    for key in ('name', 'src', 'dst'):
      if key in ev:
        add(ev[key])
    for n, _ in ev.get('dir', []):
      add(n)
  for r in range(1, cfg[0] + 1):
    add({'k': 'ckpt', 'r': r, 's': ''})
  dec = [{'k': 'other', 'r': 0, 's': d} for d in DECOYS] if decoys else []
  return {'meta': meta, 'cfg': list(cfg), 'names': names, 'init': init_snap, 'decoys': dec,
          'events': [dict(e) for e in events]}


TRACE_INVS = ['VisibleComplete', 'NewestWins', 'ResumePoint', 'SamplerSeated', 'StateCorrect', 'RoundMatchesState',
              'AtMostKeep', 'NoFailure', 'ResultCorrect', 'DecoysKept']


def validate(ctx, cfg, traces, tag):
  """Leg T: TLC validates a batch of traces of one configuration. Returns number accepted."""
  nr, f, k, e = cfg
  consts = dict(NumRounds=nr, CkptFreq=f, Keep=k, EvalFreq=e, MaxCrashes=1, HasFinalEval=True, NumDecoys=0)
  consts.update(TOGGLES_OK)
  verdicts, r = vtraces.validate_batch(ctx, 'ExperimentTrace', traces, consts, tag, invariants=['CrashPcs'])
  crash_pcs = {j['crashpc'] for j in r.json if 'crashpc' in j}
  for t, v in zip(traces, verdicts):
    if v.ok:
      continue
    if v.kind == 'violated':
      ctx.violation(f'{v.inv}@{v.event["e"]}',
                    f'real trace violates {v.inv} after event #{v.at} {short(v.event)}; cfg(num_rounds,ckpt_freq,'
                    f'keep,eval_freq)={cfg} crash schedule={t["meta"]}',
                    replay={'cfg': cfg, 'trace': t, 'violated': v.inv, 'position': v.at, 'spec_state': v.state})
    else:
      ctx.violation(f'rejected@{v.event["e"]}',
                    f'real trace is not a behaviour of Experiment: event #{v.at} {short(v.event)} matches no action '
                    f'in spec state {v.state}; cfg={cfg} crash schedule={t["meta"]}',
                    replay={'cfg': cfg, 'trace': t, 'position': v.at, 'spec_state': v.state})
  return sum(1 for v in verdicts if v.ok), crash_pcs


def short(ev):
  return {k: v for k, v in ev.items() if k != 'dir'}


def leg_t(ctx):
  if ctx.thorough:
    cfgs = [(5, 2, 2, 1), (4, 1, 1, 0), (6, 3, 2, 2), (3, 1, 3, 1), (5, 4, 1, 0), (4, 0, 1, 2), (1, 1, 1, 1),
            (2, 1, 1, 0), (6, 2, 3, 3), (5, 1, 2, 0)]
    depth, partials = 3, (0.5, 'last')
  else:
    cfgs = [(4, 2, 1, 1), (3, 1, 2, 0), (5, 2, 2, 2)]
    depth, partials = 2, (0.5, 'last')
  total = 0
  all_pcs = set()
  for ci, cfg in enumerate(cfgs):
    traces, nodes, sites = explore(ctx, cfg, depth, partials, decoys=(ci % 2 == 0))
    acc, pcs = validate(ctx, cfg, traces, 'c%d' % ci)
    all_pcs |= pcs
    total += len(traces)
    for t in traces:
      sig = (tuple(cfg), tuple(e['e'] for e in t['events']))
      ctx.case(key=hash(sig), nontrivial=any(e['e'] == 'Crash' for e in t['events']) or t['meta']['depth'] > 0)
    ctx.leg('T', traces=len(traces), accepted=acc, directory_states=nodes,
            **{'crash_sites_' + k: v for k, v in sites.items()})
    if ci == 0 and traces:
      mid = traces[min(len(traces) - 1, 7)]
      ctx.sample({'cfg(num_rounds,ckpt_freq,keep,eval_freq)': list(cfg), 'crash': mid['meta'],
                  'events': [short(e) for e in mid['events']][:40]})
  ctx.leg('T', spec_crash_points_hit=sorted(all_pcs))
  want = {'sample', 'save_write', 'save_close', 'save_rename', 'del', 'final_write', 'save_open', 'final_open'}
  miss = want - all_pcs
  if miss:
    ctx.notes.append(f'spec crash points not exercised by real crashes: {sorted(miss)}')
  return total


def make_trigger(h, point):
  """Predicate realising a NAMED crash point of the specification (pc, round, status of the file being written)."""
  pc, rnd = point['pc'], point['rnd']
  tsv_writes = [0]
  ck_writes = [0]

  def is_tsv(f):
    return isinstance(f.get('name'), dict) and f['name'].get('k') == 'tsv'

  def trig(kind, f):
    if kind == 'Write' and is_tsv(f):
      tsv_writes[0] += 1
    if kind == 'Write' and not is_tsv(f):
      ck_writes[0] += 1
    if kind == 'Open' and not is_tsv(f):
      ck_writes[0] = 0
    if pc in ('load', 'seat'):
      return kind == 'SetRound'
    if pc == 'sample':
      return kind == 'Sample' and f['r'] == rnd
    if pc == 'apply':
      return kind == 'Apply' and f['r'] == rnd
    if pc == 'save_open':
      return kind == 'Open' and not is_tsv(f) and h.cur_round == rnd
    if pc == 'save_write':
      if kind == 'Write' and not is_tsv(f) and h.cur_round == rnd and ck_writes[0] == 1:
        return ('partial', 0.5) if point['wstatus'] == 'prefix' else True
      return False
    if pc == 'save_close':
      return kind == 'Close' and not is_tsv(f) and h.cur_round == rnd
    if pc == 'save_rename':
      return kind == 'Rename' and h.cur_round == rnd
    if pc == 'del':
      # the spec may sit in "del" before any, between, or after all deletions: the expected directory tells which
      if h.cur_round != rnd:
        return False
      if kind == 'Remove':
        vis = sorted(int(m.group(1)) for m in (CKPT_RE.match(b) for b in os.listdir(h.root)) if m)
        return vis == sorted(point['visible'])
      return kind in ('PeriodicEval', 'FinalEval') or (kind == 'Sample' and f['r'] == rnd + 1)
    if pc == 'saved':
      return h.cur_round == rnd and (kind in ('PeriodicEval', 'FinalEval') or (kind == 'Sample' and f['r'] == rnd + 1))
    if pc == 'eval':
      return kind == 'PeriodicEval' and f['r'] == rnd
    if pc == 'endround':
      return h.cur_round == rnd and (kind == 'FinalEval' or (kind == 'Sample' and f['r'] == rnd + 1))
    if pc == 'final':
      return kind == 'FinalEval'
    if pc == 'final_open':
      return kind == 'Open' and is_tsv(f)
    if pc == 'final_write':
      return kind == 'Write' and is_tsv(f) and tsv_writes[0] == (1 if point['tsvstatus'] == 'empty' else 2)
    if pc == 'return':
      return kind == 'Close' and is_tsv(f)
    return False

  return trig


def leg_r(ctx):
  """Leg R: crash schedules generated by TLC (named spec crash points) are realised on the real code."""
  cfgs = [(3, 1, 1, 0), (3, 2, 2, 1)] if not ctx.thorough else [(3, 1, 1, 0), (3, 2, 2, 1), (4, 1, 2, 2), (4, 3, 1, 0)]
  total = 0
  for cfg in cfgs:
    nr, f, k, e = cfg
    consts = dict(NumRounds=nr, CkptFreq=f, Keep=k, EvalFreq=e, MaxCrashes=2, HasFinalEval=True, NumDecoys=0)
    consts.update(TOGGLES_OK)
    r = ctx.tlc('ExperimentGen', name='ExperimentGen_%d_%d_%d_%d' % cfg, constants=consts, init='GInit', next_='GNext', invariants=['EmitSchedule'],
                workers=1, coverage=False)
    scheds = r.json
    ctx.rng.shuffle(scheds)
    if not ctx.thorough:
      scheds = scheds[:250]
    root = os.path.join(ctx.scratch, 'gen_%d_%d_%d_%d' % cfg)
    h = Harness(root, *cfg, seed=ctx.seed)
    for s in scheds:
      h.restore({})
      problem = None
      for ci, point in enumerate(s['sched']):
        _, _, _, outcome = h.incarnation(trigger=make_trigger(h, point))
        if outcome != 'crash':
          problem = ('schedule-not-realisable', f'crash #{ci + 1} at spec point {point} was never reached (outcome {outcome})')
          break
        snap = h.snapshot()
        vis = sorted(n['r'] for n, fl in snap if n['k'] == 'ckpt')
        bad = [n['r'] for n, fl in snap if n['k'] == 'ckpt' and fl['status'] != 'complete']
        if vis != sorted(point['visible']) or bad:
          problem = ('directory-after-crash', f'after crash #{ci + 1} at spec point {point} the directory shows checkpoints {vis} (incomplete: {bad}), '
                                              f'the specification expects {sorted(point["visible"])}')
          break
      if problem is None:
        ev, _, _, outcome = h.incarnation()
        ret = [e_ for e_ in ev if e_['e'] == 'Return']
        snap = dict((json.dumps(n, sort_keys=True), fl) for n, fl in h.snapshot())
        tsv = snap.get(json.dumps({'k': 'tsv', 'r': 0, 's': ''}, sort_keys=True))
        vis = sorted(json.loads(n)['r'] for n in snap if json.loads(n)['k'] == 'ckpt')
        if outcome != 'return' or not ret or ret[0]['st'] != list(s['result']):
          problem = ('final-result', f'final incarnation: outcome {outcome}, returned {ret[0]["st"] if ret else None}, the specification expects {s["result"]}' + (f'; {h.notes[-1]}' if h.notes else ''))
        elif vis != sorted(s['visible']):
          problem = ('final-directory', f'checkpoints at the end {vis}, the specification expects {sorted(s["visible"])}')
        elif tsv is None or tsv['status'] != 'complete' or tsv['content'] != list(s['tsv']['content']) or tsv['round'] != s['tsv']['round']:
          problem = ('final-eval-output', f'final evaluation output {tsv}, the specification expects {s["tsv"]}')
      total += 1
      ctx.case(key=('R', cfg, repr(s['sched'])), nontrivial=len(s['sched']) >= 1)
      if problem:
        ctx.violation(f'replay:{problem[0]}', f'{problem[1]}; cfg(num_rounds,ckpt_freq,keep,eval_freq)={cfg} schedule={s["sched"]}', replay={'cfg': cfg, 'schedule': s})
    shutil.rmtree(root, ignore_errors=True)
  ctx.trace_ok(total)
  ctx.leg('R', schedules_realised=total)


def binding_control(ctx):
  """Negative control for the binding: a corrupted field in an otherwise accepted trace must be rejected."""
  cfg = (3, 1, 2, 0)
  traces, _, _ = explore(ctx, cfg, 0, (), decoys=False)
  t = json.loads(json.dumps(traces[0]))
  for ev in t['events']:
    if ev['e'] == 'Apply' and len(ev['st']) == 2:
      ev['st'] = [1, 3]
      break
  sub = type(ctx)(ctx.pid + '_ctl', ctx.tier, ctx.seed)
  sub.open_findings = {}
  validate(sub, cfg, [t], 'ctl')
  ok = len(sub.violations) == 1
  ctx.controls.append({'run': 'binding: Apply state corrupted in an accepted trace', 'expected_violation': 'rejected@Apply',
                       'got': sub.violations[0][0] if sub.violations else None, 'ok': ok})
  shutil.rmtree(sub.scratch, ignore_errors=True)
  if not ok:
    raise Machinery('binding control: corrupted trace was accepted')


def run(ctx):
  ctx.rule = ('leg M: TLC on Experiment.tla per (num_rounds, ckpt_freq, keep, eval_freq) with crashes enabled in every '
              'control state; leg T: one case = one incarnation of the real run_federated_experiment from a reachable '
              'directory state with a crash before one write effect (or mid-Write), validated by TLC; non-trivial = '
              'incarnation that crashed or started from a post-crash directory; distinct by (cfg, event-kind sequence)')
  ctx.assumptions += [
      'crashes are simulated in-process (BaseException at the effect boundary; files closed as the OS would)',
      'data handed to write() before the crash point is assumed to have reached the disk (worst case for atomicity)',
      'tf.summary logging is stubbed (TensorBoard is not installed); periodic summaries are not part of C09',
      'algorithm, sampler seed and evaluation functions are deterministic harness-supplied objects (the property '
      'quantifies over round-deterministic algorithms)',
  ]
  leg_m(ctx)
  leg_r(ctx)
  leg_t(ctx)
  binding_control(ctx)
