"""C01 - a federated-averaging round equals its mathematical definition.

Leg M: TLC on FedRound.tla for fixed small instances: clients taken in every order, accumulators vs. the order-free
       definition, one diagnostics entry per client, empty round fixpoint, no NaN; six deviations as sensitivity controls.
Leg R: random exact-island instances whose batch streams are produced by the REAL shuffle_repeat_batch; TLC
       (FedRoundOracle) computes the exact rational parameters after every round; the real federated_averaging is run
       for 1-3 consecutive rounds under several client listing orders and the jit, debug and pmap (2, 3 devices)
       backends and compared (bit-exact on dyadic instances, 1e-5 otherwise) together with the diagnostics key set.
Leg K: key discipline - with an integer-noise loss the debug backend's gradient calls reveal the key of every local step
       (descendant of the client's own key, pairwise distinct); TLC computes the exact parameters for those draws and the
       debug, jit and pmap backends must all reach them.
Leg T: "own random key" and order/backend independence of per-client work as PureHistory facts judged by TLC;
       non-rational optimizers (Adam, Adagrad, Yogi, RMSProp) relationally (orders/backends agree).
"""
import concurrent.futures as cf
import itertools
import json
import os
import subprocess
import sys

import numpy as np

from vf import intern
from vf import island
from vf import traces as vtraces
from vf.core import Machinery
from vf.tlc import Raw, tla_value

HERE = os.path.dirname(os.path.abspath(__file__))
VERIF = os.path.dirname(os.path.dirname(HERE))
INVS = ['EqualsDefinition', 'OneDiagPerClient', 'EmptyRoundFixpoint', 'NoNaN']


def run_real(fedjax, case, order, backend, loss=None, copt=None, sopt=None, keys_seed=0, key_log=None):
  """Runs the real algorithm for inst.rounds rounds; clients of each cohort listed in `order` (a permutation seed).

  key_log: list; every call of the gradient function appends the (concrete) key it was given - debug backend only."""
  import jax  # pylint: disable=g-import-not-at-top
  from fedjax.core import for_each_client as fec  # pylint: disable=g-import-not-at-top
  from fedjax.core import models  # pylint: disable=g-import-not-at-top
  inst = case['inst']
  dss = island.datasets(fedjax, inst['data'])
  ids = island.client_ids(len(dss))
  if loss == 'int_noise':
    loss = island.int_noise_loss
  grad_fn = models.grad(loss or island.per_example_loss)
  if key_log is not None:
    base_grad = grad_fn

    def grad_fn(params, batch, rng):  # pylint: disable=function-redefined
      key_log.append(tuple(int(v) for v in np.asarray(rng).reshape(-1)))
      return base_grad(params, batch, rng)
  rec = {'rounds': [], 'diag': [], 'norms': [], 'error': None}
  try:
    with fec.for_each_client_backend(backend):
      alg = fedjax.algorithms.fed_avg.federated_averaging(grad_fn, copt or island.make_opt(fedjax, inst['copt']),
                                                          sopt or island.make_opt(fedjax, inst['sopt']), island.hparams(fedjax, case['h']))
    state = alg.init(island.params_tree(inst['init']))
    for r, cohort in enumerate(inst['cohorts']):
      co = list(cohort)
      if order == 'reversed':
        co = co[::-1]
      elif isinstance(order, int):
        import random  # pylint: disable=g-import-not-at-top
        random.Random(order * 7919 + r).shuffle(co)
      keys = jax.random.split(jax.random.PRNGKey(keys_seed + r), len(dss))
      clients = [(ids[c - 1], dss[c - 1], keys[c - 1]) for c in co]
      state, diag = alg.apply(state, clients)
      rec['rounds'].append(island.params_list(state.params))
      rec['diag'].append(sorted(ids.index(k) + 1 for k in diag))
      rec['norms'].append({str(ids.index(k) + 1): float(v['delta_l2_norm']) for k, v in diag.items()})
  except Exception as ex:  # pylint: disable=broad-except
    rec['error'] = f'{type(ex).__name__}: {ex}'[:300]
  return rec


def pmap_worker(devices, items):
  job = {'devices': devices, 'verif': VERIF, 'items': items}
  env = dict(os.environ)
  p = subprocess.run([sys.executable, os.path.join(HERE, 'c01_worker.py')], input=json.dumps(job), capture_output=True, text=True, env=env, timeout=3000)
  if p.returncode != 0:
    raise Machinery('c01 worker failed: ' + p.stderr[-600:])
  return json.loads(p.stdout[p.stdout.rindex('\n[') + 1:] if '\n[' in p.stdout else p.stdout[p.stdout.index('['):])


def fixed_instances():
  R = island.R
  a = dict(data=[[[1, 0], [2, 1], [3, -1]], [[5, 2]], []], stream=[[[1, 2], [3, 1]], [[1, 1]], []], init=[R(0), R(1)],
           copt=island.opt_spec('sgd', 0.5), sopt=island.opt_spec('sgd', 1), mu=R(0), rounds=2, cohorts=[[1, 2, 3], [2, 1]],
           noise=[[[1, -2], [2], [0]], [[-1, 2], [1], [0]]])    # a key-dependent loss
  b = dict(a, copt=island.opt_spec('mom', 0.5, 0.5), sopt=island.opt_spec('mom', 1, 0.5), cohorts=[[1, 2], [3], [1, 3]], rounds=3,
           noise=[[[1, -2], [2], [0]], [[0, 0], [0], [0]], [[2, 1], [-1], [0]]])
  c = dict(data=[[[2]], [[-1], [3]], [[0], [4], [4]]], stream=[[[1]], [[2, 1]], [[1, 2], [3, 3]]], init=[R(1)],
           copt=island.opt_spec('sgd', 1), sopt=island.opt_spec('mom', 0.5, 0.25), mu=R(0), rounds=2, cohorts=[[3, 1, 2], [1, 2, 3]])
  d = dict(c, copt=island.opt_spec('nes', 0.5, 0.5), sopt=island.opt_spec('nes', 1, 0.5))      # Nesterov momentum on both sides
  return [a, b, c, d]


def descendants(jax, key, depth):
  """All keys obtainable from `key` by at most `depth` nested jax.random.split(.) selections (the key itself included)."""
  out, level = set(), [key]
  for _ in range(depth + 1):
    nxt = []
    for k in level:
      out.add(tuple(int(v) for v in np.asarray(k).reshape(-1)))
      a, b = jax.random.split(k)
      nxt += [a, b]
    level = nxt
  return out


def key_leg(ctx, fedjax, cases, ev):
  """Each client is trained by sequential steps with its OWN random key, a fresh descendant at every step.

  The loss draws an INTEGER eta(key) (exact island).  On the debug backend the gradient function records the key of every
  step: they must descend from the client's own key of that round and be pairwise distinct (PureHistory facts).  TLC
  (FedRoundOracle with inst.noise = eta of the recorded keys) then gives the exact parameters; the debug, jit and pmap
  backends must all produce them, i.e. draw with the same keys."""
  import jax  # pylint: disable=g-import-not-at-top
  big = ctx.thorough
  picked = [c for c in cases if max(len(s) for s in c['inst']['stream']) >= 2 and sum(1 for d in c['inst']['data'] if d) >= 1][: (24 if big else 8)]
  keyed, logs = [], []
  for ci, c in enumerate(picked):
    inst = c['inst']
    log = []
    seed = 300 + ci
    rec = run_real(fedjax, c, 'listed', 'debug', loss='int_noise', keys_seed=seed, key_log=log)
    if rec['error']:
      ev.append({'e': 'Fact', 'name': 'KeyedRunCompletes', 'about': f'keyed case {ci}: {rec["error"]}', 'holds': False})
      continue
    n = len(inst['data'])
    noise = [[[0] * max(1, len(s)) for s in inst['stream']] for _ in range(inst['rounds'])]
    pos = 0
    ok_count = True
    for r, cohort in enumerate(inst['cohorts']):
      keys = jax.random.split(jax.random.PRNGKey(seed + r), n)
      seen_clients = set()
      for cpos, cl in enumerate(cohort):
        steps = len(inst['stream'][cl - 1])
        own = descendants(jax, keys[cl - 1], steps + 1) if steps else set()
        for i in range(steps):
          if pos >= len(log):
            ok_count = False
            break
          k = log[pos]
          pos += 1
          noise[r][cl - 1][i] = int(island.int_noise_of(np.array(k, np.uint32)))
          ev.append({'e': 'Fact', 'name': 'StepKeyDescendsFromOwnClientKey', 'about': f'keyed case {ci} round {r + 1} client {cl} step {i + 1}', 'holds': k in own})
          if cl not in seen_clients:    # (a client listed twice in a cohort is handed the same key twice by this harness)
            ev.append({'e': 'Fresh', 'group': f'keys drawn with in keyed case {ci} round {r + 1}', 'out': ctx_intern(k)})
        seen_clients.add(cl)
    ev.append({'e': 'Fact', 'name': 'OneGradientCallPerLocalStep', 'about': f'keyed case {ci}: {len(log)} calls', 'holds': ok_count and pos == len(log)})
    kinst = dict(inst, noise=noise)
    if not island.within_island(dict(kinst, mu=island.R(0))):
      continue
    keyed.append((ci, c, kinst, seed, rec))
  if not keyed:
    return
  expected = island.oracle(ctx, [k[2] for k in keyed], 'K')
  pm = [{'case': k[1], 'order': 'reversed', 'loss': 'int_noise', 'keys_seed': k[3]} for k in keyed]
  pm_recs = pmap_worker(2, pm)
  n_ok = 0
  for (ci, c, kinst, seed, rec_debug), exp, rec_pmap in zip(keyed, expected, pm_recs):
    runs = [('debug', 'listed', rec_debug), ('jit', 'reversed', run_real(fedjax, c, 'reversed', 'jit', loss='int_noise', keys_seed=seed)),
            ('pmap/2', 'reversed', rec_pmap)]
    for backend, order, rec in runs:
      ctx.case(key=('K', ci, backend), nontrivial=True)
      if rec['error']:
        ctx.violation(f'keys:{backend.split("/")[0]}:exception', f'{rec["error"]} with the key-dependent loss, backend={backend}, instance={kinst}', replay={'instance': kinst, 'hparams': c['h']})
        continue
      bad = None
      for r in range(kinst['rounds']):
        want_p = [float(island.frac(x)) for x in exp['rounds'][r]]
        if not np.allclose(rec['rounds'][r], want_p, rtol=1e-5, atol=1e-5):
          bad = f'round {r + 1}: parameters {rec["rounds"][r]}, but sequential steps with a fresh descendant of the client\'s own key per step give {want_p}'
          break
      if bad:
        ctx.violation(f'keys:{backend.split("/")[0]}:params', f'{bad} (backend={backend}, order={order}, eta per step={kinst["noise"]}, hparams={c["h"]}, instance={c["inst"]})',
                      replay={'instance': kinst, 'hparams': c['h'], 'backend': backend})
      else:
        n_ok += 1
  ctx.trace_ok(n_ok)
  ctx.leg('K', keyed_instances=len(keyed), runs=3 * len(keyed))


_KEY_INTERN = {}


def ctx_intern(k):
  return _KEY_INTERN.setdefault(k, len(_KEY_INTERN) + 1)


def run(ctx):
  import fedjax  # pylint: disable=g-import-not-at-top
  big = ctx.thorough
  rng = ctx.rng
  ctx.rule = ('case = (exact-island instance: population, batch hyper-parameters (streams from the real batching code), optimizers, '
              'cohorts per round) x (client listing order, backend); non-trivial = >= 2 clients with examples and >= 2 local '
              'steps or >= 2 rounds; distinct by the instance and the order/backend')
  ctx.assumptions += ['per-example loss 1/2 |w - x|^2 with integer data, SGD / SGD-momentum with dyadic rates: every intermediate value '
                      'is a small rational (exact island); other optimizers only relationally',
                      'a zero-example client with num_epochs=None and num_steps>0 makes shuffle_repeat_batch loop forever: the '
                      'batch stream (hence the definition) does not exist there; such inputs are not generated (DESIGN section 7, F-14)']
  # ---- leg M
  mc = '---- MODULE MC_FedRound ----\nEXTENDS FedRound\nInstDef == {%s}\n====\n' % ', '.join(tla_value(island.complete(i)) for i in fixed_instances())
  consts = dict(Instances=Raw('<- InstDef'), **island.TOG)
  ctx.model_check('MC_FedRound', name='FedRound_M', constants=consts, invariants=INVS, extra_modules={'MC_FedRound': mc})
  for tog, inv in (('WeightByExamples', 'EqualsDefinition'), ('FreshClientOpt', 'EqualsDefinition'), ('RoundParams', 'EqualsDefinition'),
                   ('ZeroGuard', 'NoNaN'), ('CarryServerOpt', 'EqualsDefinition'), ('AdvanceKey', 'EqualsDefinition')):
    c = dict(consts)
    c[tog] = False
    ctx.model_check('MC_FedRound', expect=inv, name=f'FedRound_ctl_{tog}', constants=c, invariants=INVS, extra_modules={'MC_FedRound': mc}, coverage=False)
  ctx.require_actions(['ClientStep', 'FinishClient', 'ServerUpdate'])

  # ---- leg R: random instances, oracle by TLC
  cases = []
  want = 160 if big else 36
  while len(cases) < want:
    c = island.random_instance(rng, fedjax, leaves=rng.choice([1, 2, 3]), dyadic=rng.random() < .7)
    if c is not None:
      cases.append(c)
  # a fixed instance with a round whose cohort holds no example, after a round that built up server momentum: the server
  # optimizer still runs on the zero mean update (FedRound's family parameter ApplyOnEmpty is TRUE for FedAvg)
  fx = {'data': [[], [[2, 1]], [[0, -1], [4, 3]]], 'init': [island.R(-2), island.R(1)], 'copt': island.opt_spec('sgd', 1), 'sopt': island.opt_spec('mom', 0.5, 0.5),
        'mu': island.R(0), 'rounds': 4, 'cohorts': [[2, 1], [1], [1, 3], [1, 1]]}
  fxh = {'bs': 2, 'epochs': 1, 'steps': None, 'drop': False, 'seed': 1, 'skip': True}
  fx['stream'] = island.real_streams(fedjax, island.datasets(fedjax, fx['data']), island.hparams(fedjax, fxh))
  cases.append({'inst': fx, 'h': fxh, 'exact': False})
  # "its own batch stream": the streams the oracle is fed with come from the real batching code; their SHAPE (number of
  # batches, batch sizes) must be the documented one for every client
  for ci, c in enumerate(cases):
    for cl, (d, stq) in enumerate(zip(c['inst']['data'], c['inst']['stream'])):
      prob = island.stream_shape_problem(c['h'], len(d), stq)
      if prob:
        ctx.violation('stream-shape', f'client {cl + 1} of instance {ci}: {prob}', replay={'hparams': c['h'], 'n': len(d), 'stream': stq})
  # ... also for clients far smaller than the batch (a batch wraps around the client's data several times)
  for n_small in (1, 2, 3, 4):
    for bs_big in (2, 3, 5, 7, 8, 9):
      for (ep, stp) in ((2, None), (None, 3), (3, 2)):
        hsm = {'bs': bs_big, 'epochs': ep, 'steps': stp, 'drop': False, 'seed': 100 * n_small + bs_big + ctx.seed, 'skip': False}
        dsm = [[[i + 1, -i] for i in range(n_small)]]
        stq = island.real_streams(fedjax, island.datasets(fedjax, dsm), island.hparams(fedjax, hsm))[0]
        ctx.case(key=('small-client-stream', n_small, bs_big, ep, stp), nontrivial=bs_big > 2 * n_small)
        prob = island.stream_shape_problem(hsm, n_small, stq)
        if prob:
          ctx.violation('stream-shape', f'a client with {n_small} examples: {prob}', replay={'hparams': hsm, 'n': n_small, 'stream': stq})
  expected = island.oracle(ctx, [c['inst'] for c in cases], 'R')
  runs = []
  pmap_items = {2: [], 3: []}
  for ci, c in enumerate(cases):
    orders = ['listed', 'reversed', 1] + ([2, 3] if big else [])
    for oi, order in enumerate(orders):
      backend = ('jit', 'debug', 'jit', 'jit', 'debug')[oi % 5]
      runs.append((ci, order, backend, run_real(fedjax, c, order, backend)))
    d = 2 if ci % 2 == 0 else 3
    if big or ci % 2 == 0:
      pmap_items[d].append({'ci': ci, 'case': c, 'order': 'reversed' if ci % 4 == 0 else 2})
  with cf.ThreadPoolExecutor(max_workers=4) as ex:
    futs = {d: ex.submit(pmap_worker, d, [{'case': it['case'], 'order': it['order']} for it in items]) for d, items in pmap_items.items() if items}
    for d, fut in futs.items():
      for it, rec in zip(pmap_items[d], fut.result()):
        runs.append((it['ci'], it['order'], f'pmap/{d}', rec))
  n_ok = 0
  for ci, order, backend, rec in runs:
    c = cases[ci]
    inst = c['inst']
    exp = expected[ci]['rounds']
    cfg = {'instance': inst, 'hparams': c['h'], 'order': order, 'backend': backend}
    busy = sum(1 for d in inst['data'] if d) >= 2 and (max(len(s) for s in inst['stream']) >= 2 or inst['rounds'] >= 2)
    ctx.case(key=(ci, repr(order), backend), nontrivial=busy)
    if rec['error']:
      ctx.violation(f'replay:{backend.split("/")[0]}:exception:{rec["error"].split(":")[0]}', f'{rec["error"]} for order={order} backend={backend} instance={inst}',
                    replay=cfg)
      continue
    bad = None
    for r in range(inst['rounds']):
      want_p = [float(island.frac(x)) for x in exp[r]]
      got_p = rec['rounds'][r]
      dy = all(island.is_pow2(x[1]) and abs(x[0]) < 2**22 for rr in exp[:r + 1] for x in rr)
      if c['exact'] and dy:
        okp = all(np.float32(g) == np.float32(w) for g, w in zip(got_p, want_p))
      else:
        okp = np.allclose(got_p, want_p, rtol=1e-5, atol=1e-5)
      if not okp or any(np.isnan(got_p)):
        bad = ('params', f'round {r + 1}: parameters {got_p}, the definition gives {[str(island.frac(x)) for x in exp[r]]} = {want_p}')
        break
      if rec['diag'][r] != sorted(set(inst['cohorts'][r])):
        bad = ('diagnostics', f'round {r + 1}: diagnostics entries for clients {rec["diag"][r]}, cohort is {sorted(set(inst["cohorts"][r]))}')
        break
    if bad:
      ctx.violation(f'replay:{backend.split("/")[0]}:{bad[0]}', f'{bad[1]} (order={order}, backend={backend}, exact={c["exact"]}, hparams={c["h"]}, instance={inst})',
                    replay=cfg)
    else:
      n_ok += 1
  ctx.trace_ok(n_ok)
  ctx.leg('R', instances=len(cases), runs=len(runs))
  ctx.sample({'instance': cases[0]['inst'], 'hparams': cases[0]['h'], 'expected_rounds': [[str(island.frac(x)) for x in rr] for rr in expected[0]['rounds']]})

  # ---- leg T: own random key, order/backend independence of per-client work; other optimizers relationally
  ev = []
  tol = intern.Tolerant(rtol=1e-5, atol=1e-6)
  sub = [c for c in cases if sum(1 for d in c['inst']['data'] if d) >= 2][: (20 if big else 6)]
  for ci, c in enumerate(sub):
    for oi, order in enumerate(['listed', 'reversed', 1, 2]):
      rec = run_real(fedjax, c, order, 'jit' if oi % 2 == 0 else 'debug', loss=island.noisy_per_example_loss, keys_seed=100 + ci)
      if rec['error']:
        ev.append({'e': 'Fact', 'name': 'NoisyRunCompletes', 'about': f'case {ci} order {order}: {rec["error"]}', 'holds': False})
        continue
      # only the first round: later rounds start from (order independent, but float-reassociated) parameters
      for cid, nv in rec['norms'][0].items():
        ev.append({'e': 'Call', 'key': f'delta-norm(case {ci}, client {cid}, own key)', 'out': tol(np.float32(nv))})
      ev.append({'e': 'Call', 'key': f'params-after-round-1(case {ci})', 'out': tol(np.array(rec['rounds'][0], np.float32))})
    # different clients get different keys: two clients with identical data must move differently under the noisy loss
  same = {'inst': dict(cases[0]['inst'], data=[[[1, 1], [2, 0]], [[1, 1], [2, 0]]], stream=[[[1, 2]], [[1, 2]]], init=[island.R(0), island.R(0)], cohorts=[[1, 2]], rounds=1,
                       copt=island.opt_spec('sgd', 0.5), sopt=island.opt_spec('sgd', 1)), 'h': {'bs': 2, 'epochs': 1, 'steps': None, 'drop': False, 'seed': 1, 'skip': True}, 'exact': True}
  rec = run_real(fedjax, same, 'listed', 'jit', loss=island.noisy_per_example_loss, keys_seed=5)
  if not rec['error']:
    ev.append({'e': 'Fresh', 'group': 'delta of twin clients under the noisy loss', 'out': tol(np.float32(rec['norms'][0]['1']))})
    ev.append({'e': 'Fresh', 'group': 'delta of twin clients under the noisy loss', 'out': tol(np.float32(rec['norms'][0]['2']))})
  for name in ('adam', 'adagrad', 'yogi', 'rmsprop'):
    mk = lambda nm=name: getattr(fedjax.optimizers, nm)(0.125)
    for ci, c in enumerate(sub[:3]):
      # sign-normalising optimizers turn a gradient coordinate that is zero up to rounding into a step of either sign, so
      # "equal up to floating-point rounding" is only meaningful away from stationary coordinates: start far from the data
      c = dict(c, inst=dict(c['inst'], init=[island.R(10 if lf % 2 == 0 else -10) for lf in range(len(c['inst']['init']))]))
      for oi, (order, backend) in enumerate([('listed', 'jit'), ('reversed', 'debug'), (2, 'jit')]):
        rec = run_real(fedjax, c, order, backend, copt=mk(), sopt=mk())
        if rec['error']:
          ev.append({'e': 'Fact', 'name': 'OptimizerRunCompletes', 'about': f'{name} case {ci}: {rec["error"]}', 'holds': False})
        else:
          ev.append({'e': 'Call', 'key': f'{name}: params after {c["inst"]["rounds"]} rounds (case {ci})', 'out': tol(np.array(rec['rounds'][-1], np.float32)),
                     'val': [float(x) for x in rec['rounds'][-1]], 'how': f'{order}/{backend}'})
          ev.append({'e': 'Fact', 'name': 'Finite', 'about': f'{name} case {ci}', 'holds': bool(np.all(np.isfinite(rec['rounds'][-1])))})
  key_leg(ctx, fedjax, cases, ev)
  vs, _ = vtraces.validate_batch(ctx, 'PureHistory', [{'events': ev}], {}, 'PH')
  v = vs[0]
  if not v.ok:
    ctx.violation(f'facts:{v.inv or "rejected"}:{(v.state or "")[:70]}', f'relational facts about federated averaging violated: {v.inv} at event #{v.at} {v.event}; recorded {v.state}',
                  replay={'events': ev[max(0, (v.at or 1) - 8):(v.at or 1) + 1]})
  ctx.leg('T', facts=len(ev))
