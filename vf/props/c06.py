"""C06 - masked gradients and losses ignore padding and batch geometry.

Leg M: TLC on MaskedLoss.tla (exact rationals): for every dataset of the bank, parameter, regulariser weight and every
       layout (order, cuts into batches, masked padding rows anywhere with arbitrary content, fully padded batches) the
       per-batch gradient, the average loss, the full-batch gradient and the per-domain sums computed batch by batch
       equal their batch-free definitions, with the regulariser counted once; three deviations reported.
Leg R: emitted layouts are replayed into fedjax.grad / model_grad, evaluate_average_loss, AverageLossEvaluator (both
       entry points), mime.create_grads_for_each_client and agnostic_fed_avg.create_domain_metrics_for_each_client
       and compared with the TLC rationals.
Leg T: quantities the ALGORITHMS derive through ClientDataset.padded_batch: agnostic FedAvg domain weights (with and
       without a regulariser), HypCluster assignment, Mime / MimeLite rounds must not depend on the padded batch size
       and bucket count (PureHistory facts judged by TLC).
"""
import numpy as np

from vf import algs
from vf import intern
from vf import island
from vf import traces as vtraces
from vf.core import Machinery
from vf.tlc import Raw, tla_value

INVS = ['BatchGradIsUnpadded', 'AvgLossIsUnbatched', 'FullGradIsUnbatched', 'DomainSumsAreUnbatched', 'NoRealExampleGivesZero', 'NoNaN']
TOG = dict(RegOnce=True, MaskRows=True, SafeDiv=True)


def f(r):
  return r[0] / r[1]


def run(ctx):
  import jax  # pylint: disable=g-import-not-at-top
  import jax.numpy as jnp  # pylint: disable=g-import-not-at-top
  import fedjax  # pylint: disable=g-import-not-at-top
  from fedjax.algorithms import agnostic_fed_avg  # pylint: disable=g-import-not-at-top
  from fedjax.algorithms import hyp_cluster  # pylint: disable=g-import-not-at-top
  from fedjax.algorithms import mime  # pylint: disable=g-import-not-at-top
  from fedjax.core import models  # pylint: disable=g-import-not-at-top
  big = ctx.thorough
  rng = ctx.rng
  ctx.rule = ('case = (dataset, parameter, regulariser weight, layout of padded batches, entry point); non-trivial = layout with a '
              'padding row, a fully padded batch or >= 2 batches; distinct by all of these')
  ctx.assumptions += ['exact island: scalar parameter, loss 1/2 (w - x)^2 with integer x, L2 regulariser with dyadic weight; padding '
                      'rows hold arbitrary finite values', 'create_domain_metrics_for_each_client(..., regularizer=r) adds r once per '
                      'batch by construction; the algorithm never passes one: only the algorithm-derived quantity is asserted']
  ds = [[{'x': 1, 'd': 1}, {'x': -2, 'd': 2}, {'x': 3, 'd': 1}], [{'x': 2, 'd': 2}], []]
  if big:
    ds.append([{'x': 0, 'd': 1}, {'x': 4, 'd': 1}, {'x': -1, 'd': 2}, {'x': 2, 'd': 2}])
  mc = ('---- MODULE MC_MaskedLoss ----\nEXTENDS MaskedLoss\nDsDef == {%s}\nWsDef == {%s}\nLamsDef == {<<0,1>>, <<1,2>>}\n====\n'
        % (', '.join(tla_value(d) for d in ds), '<<0,1>>, <<1,2>>, <<0-1,1>>' if big else '<<1,2>>, <<0-1,1>>'))
  consts = dict(Datasets=Raw('<- DsDef'), Ws=Raw('<- WsDef'), Lams=Raw('<- LamsDef'), PadXs=Raw('{0, 7}'), MaxSlots=3, MaxPads=2 if big else 1,
                MaxBatches=3, **TOG)
  r = ctx.model_check('MC_MaskedLoss', name='MaskedLoss_M', constants=consts, invariants=INVS + ['Emit'], extra_modules={'MC_MaskedLoss': mc}, workers=1,
                      timeout=3000)
  for tog, inv in (('RegOnce', 'BatchGradIsUnpadded'), ('MaskRows', ['DomainSumsAreUnbatched', 'BatchGradIsUnpadded', 'AvgLossIsUnbatched']),
                   ('SafeDiv', ['BatchGradIsUnpadded', 'NoNaN'])):
    c = dict(consts, MaxPads=1, MaxBatches=2)
    c[tog] = False
    ctx.model_check('MC_MaskedLoss', expect=inv, name=f'MaskedLoss_ctl_{tog}', constants=c, invariants=INVS, extra_modules={'MC_MaskedLoss': mc}, coverage=False)
  ctx.require_actions(['Pad', 'Close'])

  # ---- leg R
  def loss(params, batch, rng_):
    return 0.5 * (params['w'] - batch['x']) ** 2

  model = models.Model(init=None, apply_for_train=lambda p, b, k: p['w'] - b['x'], apply_for_eval=None,
                       train_loss=lambda b, out: 0.5 * out ** 2, eval_metrics={})
  fns = {}

  def get(lam):
    if lam not in fns:
      reg = (lambda p: 0.5 * lam * p['w'] ** 2) if lam else None
      g = models.grad(loss, reg)
      fns[lam] = dict(reg=reg, grad=g, model_grad=models.model_grad(model, reg), ale=models.AverageLossEvaluator(loss, reg),
                      mime=mime.create_grads_for_each_client(g), dom=agnostic_fed_avg.create_domain_metrics_for_each_client(loss, 2))
    return fns[lam]

  cases = r.json
  rng.shuffle(cases)
  n = len(cases) if big else 300
  key = jax.random.PRNGKey(0)
  replayed = 0
  for ci, c in enumerate(cases[:n]):
    lam = f(c['lam'])
    w = f(c['w'])
    fn = get(lam)
    params = {'w': jnp.float32(w)}
    batches = []
    for b in c['layout']:
      xs = [float(c['data'][s - 1]['x']) if s else float(rng.choice([0, 7, -3])) for s in b]
      dd = [c['data'][s - 1]['d'] - 1 if s else rng.choice([0, 1]) for s in b]
      batches.append({'x': np.array(xs, np.float32), 'domain_id': np.array(dd, np.int32), '__mask__': np.array([s != 0 for s in b])})
    cfg = dict(data=c['data'], w=w, lam=lam, layout=c['layout'])
    nontriv = len(c['layout']) >= 2 or any(0 in b for b in c['layout'])
    ctx.case(key=repr(cfg), nontrivial=nontriv)
    replayed += 1
    probs = []
    # per-batch gradients
    for bi, (b, eg) in enumerate(zip(batches, c['bgrads'])):
      for nm in ('grad', 'model_grad'):
        g = float(fn[nm](params, b, key)['w'])
        if not np.isfinite(g) or abs(g - f(eg)) > 1e-6 * (1 + abs(f(eg))):
          probs.append((f'{nm}', f'batch {bi + 1} {c["layout"][bi]}: {nm} = {g}, the gradient of its real rows (regulariser once) is {eg[0]}/{eg[1]}'))
    # average loss, three entry points
    el = f(c['avgloss'])
    got = {
        'evaluate_average_loss': float(models.evaluate_average_loss(params, batches, key, loss, fn['reg'])),
        # one-pass inputs: a generator / iterator over the same batches
        'evaluate_average_loss(generator)': float(models.evaluate_average_loss(params, (b for b in batches), key, loss, fn['reg'])),
        'evaluate_average_loss(iterator)': float(models.evaluate_average_loss(params, iter(batches), key, loss, fn['reg'])),
        'AverageLossEvaluator.global(generator)': float(dict(fn['ale'].evaluate_global_params(params, ((cid_, (b for b in bs_), k_) for cid_, bs_, k_ in [(b'c', batches, key)])))[b'c']),
        'AverageLossEvaluator.global': float(dict(fn['ale'].evaluate_global_params(params, [(b'c', batches, key)]))[b'c']),
        'AverageLossEvaluator.per_client': float(dict(fn['ale'].evaluate_per_client_params([(b'c', batches, key, params)]))[b'c']),
    }
    for nm, gv in got.items():
      if not np.isfinite(gv) or abs(gv - el) > 1e-6 * (1 + abs(el)):
        probs.append((nm, f'{nm} = {gv}, the batch-free average loss (+ regulariser once) is {c["avgloss"][0]}/{c["avgloss"][1]}'))
    # full-batch gradient as Mime computes it
    gs, ns = dict(fn['mime'](params, [(b'c', batches, key)]))[b'c']
    ns = float(ns)
    fg = float(gs['w']) / ns if ns else 0.0
    if ns != c['nsum'] or not np.isfinite(fg) or abs(fg - f(c['fullgrad'])) > 1e-6 * (1 + abs(f(c['fullgrad']))):
      probs.append(('mime.grads', f'mime grads_sum/num_sum = {fg} over {ns} examples, the full-batch gradient is {c["fullgrad"][0]}/{c["fullgrad"][1]} over {c["nsum"]}'))
    # per-domain sums as agnostic FedAvg computes them
    dm = dict(fn['dom']({'params': params, 'alpha': jnp.ones(2)}, [(b'c', batches, key)]))[b'c']
    dl = [float(x) for x in dm['domain_loss']]
    dn = [float(x) for x in dm['domain_num']]
    if dn != [float(x) for x in c['dn']] or any(abs(a - f(e)) > 1e-6 * (1 + abs(f(e))) for a, e in zip(dl, c['dl'])) or not np.all(np.isfinite(dl)):
      probs.append(('agnostic.domain_metrics', f'domain sums {dl} counts {dn}, batch-free values are {[f(e) for e in c["dl"]]} counts {c["dn"]}'))
    for nm, msg in probs[:2]:
      ctx.violation(f'replay:{nm}', f'{msg}; w={w} lam={lam} data={c["data"]} layout={c["layout"]}', replay={'cfg': cfg, 'expected': {k: c[k] for k in ('bgrads', 'avgloss', 'fullgrad', 'dl', 'dn')}})
  # the packaged regulariser (fedjax.regularizers.l2_regularizer) with centres / per-parameter weights: a sequence of regularisers
  # of equal weight and structure but different VALUES, evaluated one after the other (fresh and long-lived evaluators): every
  # average loss is the batch-free mean loss plus ITS OWN regulariser, once
  from fedjax.core import regularizers  # pylint: disable=g-import-not-at-top
  reg_n = 0
  for ci, c in enumerate(cases[:(8 if big else 3)]):
    w = f(c['w'])
    params = {'w': jnp.float32(w)}
    batches = []
    for b in c['layout']:
      xs = [float(c['data'][s - 1]['x']) if s else 5.0 for s in b]
      batches.append({'x': np.array(xs, np.float32), 'domain_id': np.zeros(len(b), np.int32), '__mask__': np.array([s != 0 for s in b])})
    real = [float(c['data'][s - 1]['x']) for b in c['layout'] for s in b if s]
    mean_loss = float(np.mean([0.5 * (w - x) ** 2 for x in real])) if real else 0.0
    for lamw in (0.25, 0.5):
      for (centre, pw) in ((1.0, None), (-2.0, None), (0.5, 2.0), (0.5, 3.0), (None, 0.5), (None, 1.5)):
        reg = regularizers.l2_regularizer(lamw, center_params=None if centre is None else {'w': jnp.float32(centre)},
                                          params_weights=None if pw is None else {'w': jnp.float32(pw)})
        want = mean_loss + lamw * (1.0 if pw is None else pw) * (w - (centre or 0.0)) ** 2
        got = {'evaluate_average_loss': float(models.evaluate_average_loss(params, batches, key, loss, reg)),
               'AverageLossEvaluator': float(dict(models.AverageLossEvaluator(loss, reg).evaluate_global_params(params, [(b'c', batches, key)]))[b'c']),
               'grad': None}
        reg_n += 1
        cfgr = dict(data=c['data'], w=w, layout=c['layout'], weight=lamw, centre=centre, params_weight=pw)
        ctx.case(key=('l2_regularizer', ci, lamw, centre, pw), nontrivial=True)
        for nm, gv in got.items():
          if gv is not None and (not np.isfinite(gv) or abs(gv - want) > 1e-5 * (1 + abs(want))):
            ctx.violation(f'replay:{nm}:l2_regularizer', f'{nm} = {gv} with l2_regularizer({lamw}, centre={centre}, params_weights={pw}); mean loss + this regulariser once is {want} '
                          f'for {cfgr}', replay={'cfg': cfgr})
  replayed += reg_n
  ctx.trace_ok(replayed)
  ctx.leg('R', layouts_enumerated=len(cases), replays=replayed)
  ctx.sample({'case': {k: cases[0][k] for k in ('data', 'w', 'lam', 'layout', 'bgrads', 'avgloss', 'fullgrad')}})

  # ---- leg T: algorithm-derived quantities vs. padded batch geometry
  ev = []
  tol = intern.Tolerant(rtol=2e-5, atol=2e-6)
  R = island.R
  for i in range(12 if big else 4):
    c = None
    while c is None:
      c = island.random_instance(rng, fedjax, leaves=2, dyadic=True, allow_momentum=False, max_clients=4, rounds=1)
    if i % 2 == 1 and c['h']['epochs'] is not None and all(c['inst']['data']):
      # a client without any example next to clients with examples (its mean gradient is 0/0 unless summed before dividing)
      c['inst']['data'] = c['inst']['data'] + [[]]
      c['inst']['stream'] = island.real_streams(fedjax, island.datasets(fedjax, c['inst']['data']), island.hparams(fedjax, c['h']))
    c['inst']['cohorts'] = [list(range(1, len(c['inst']['data']) + 1))]
    sizes = [len(d) for d in c['inst']['data']]
    geoms = [(1, 1), (2, 1), (3, 2), (4, 3), (7, 1), (8, 4)] if big else [(1, 1), (3, 2), (8, 4)]
    # every second instance: no example of domain 1 in the whole cohort (its mean loss is 0/0 unless guarded)
    dom = (lambda ci, j: (ci + j) % 2) if i % 2 == 0 else (lambda ci, j: 0)
    for gi, (bs, bk) in enumerate(geoms):
      gbackend = (None, 'debug', 'pmap')[gi % 3]      # ... nor on the for_each_client backend
      for reg_lam in (0.0, 0.5):
        name = f'instance {i} sizes {sizes}'
        reg = (lambda p: 0.5 * reg_lam * sum(jnp.sum(x ** 2) for x in jax.tree_util.tree_leaves(p))) if reg_lam else None
        # agnostic FedAvg: domain weights after one round
        dss = island.datasets(fedjax, c['inst']['data'])
        dss = [fedjax.ClientDataset(dict(d.raw_examples, domain_id=np.array([dom(ci, j) for j in range(len(d))], np.int32))) for ci, d in enumerate(dss)]
        ids = island.client_ids(len(dss))
        alg = agnostic_fed_avg.agnostic_federated_averaging(
            island.per_example_loss, fedjax.optimizers.sgd(0.25), fedjax.optimizers.sgd(1.0), island.hparams(fedjax, c['h']),
            fedjax.PaddedBatchHParams(batch_size=bs, num_batch_size_buckets=bk), init_domain_weights=np.array([0.5, 0.5], np.float32),
            domain_learning_rate=0.25, regularizer=reg)
        keys = jax.random.split(jax.random.PRNGKey(3), len(dss))
        st, _ = alg.apply(alg.init(island.params_tree(c['inst']['init'])), [(ids[k], dss[k], keys[k]) for k in range(len(dss))])
        ev.append({'e': 'Call', 'key': f'agnostic domain weights and params after a round ({name}, regulariser {reg_lam})',
                   'out': tol((np.asarray(st.domain_weights), island.params_list(st.params)))})
        # the per-domain COUNTS the round derives from its padded batches are the cohort's counts, also when a domain starts
        # with weight 0 (a client holding only that domain then has scaling weight 0, its examples still count)
        counts = [sum(1 for ci in range(len(dss)) for j in range(sizes[ci]) if dom(ci, j) == dd) for dd in range(2)]
        for w0 in ([0.5, 0.5], [1.0, 0.0], [0.0, 1.0]):
          alg0 = agnostic_fed_avg.agnostic_federated_averaging(
              island.per_example_loss, fedjax.optimizers.sgd(0.25), fedjax.optimizers.sgd(1.0), island.hparams(fedjax, c['h']),
              fedjax.PaddedBatchHParams(batch_size=bs, num_batch_size_buckets=bk), init_domain_weights=np.array(w0, np.float32),
              domain_learning_rate=0.25, regularizer=reg) if w0 != [0.5, 0.5] else alg
          st0 = st if w0 == [0.5, 0.5] else alg0.apply(alg0.init(island.params_tree(c['inst']['init'])), [(ids[k], dss[k], keys[k]) for k in range(len(dss))])[0]
          newest = np.asarray(st0.domain_window[-1], np.float64).tolist()
          ev.append({'e': 'Fact', 'name': 'AgnosticWindowHoldsTheCohortCounts', 'about': f'{name} geometry {(bs, bk)} initial weights {w0}: newest window row {newest}, cohort counts {counts}',
                     'holds': newest == [float(x) for x in counts]})
          ev.append({'e': 'Call', 'key': f'agnostic domain weights and params after a round ({name}, regulariser {reg_lam}, initial weights {w0})',
                     'out': tol((np.asarray(st0.domain_weights), island.params_list(st0.params)))})
        ev.append({'e': 'Fact', 'name': 'AgnosticFinite', 'about': f'{name} geometry {(bs, bk)}', 'holds': bool(np.all(np.isfinite(np.asarray(st.domain_weights))) and np.all(np.isfinite(island.params_list(st.params))))})
        # HypCluster assignment
        ale = models.AverageLossEvaluator(island.per_example_loss, reg)
        p0 = island.params_tree(c['inst']['init'])
        cps = [p0, jax.tree_util.tree_map(lambda x: x + 1.5, p0), jax.tree_util.tree_map(lambda x: x - 2.0, p0)]
        asg = hyp_cluster.maximization_step(ale, cps, [(ids[k], dss[k], keys[k]) for k in range(len(dss))], fedjax.PaddedBatchHParams(batch_size=bs, num_batch_size_buckets=bk))
        ev.append({'e': 'Call', 'key': f'hyp_cluster assignment ({name}, regulariser {reg_lam})', 'out': tol(np.array([int(asg[k]) for k in ids]))})
        # ... nor on the for_each_client backend (pmap re-orders clients by their number of padded batches)
        from fedjax.core import for_each_client as fec_mod  # pylint: disable=g-import-not-at-top
        if bk == 1:
          with fec_mod.for_each_client_backend('pmap'):
            ale_p = models.AverageLossEvaluator(island.per_example_loss, reg)
          asg_p = hyp_cluster.maximization_step(ale_p, cps, [(ids[k], dss[k], keys[k]) for k in range(len(dss))], fedjax.PaddedBatchHParams(batch_size=bs, num_batch_size_buckets=bk))
          ev.append({'e': 'Call', 'key': f'hyp_cluster assignment ({name}, regulariser {reg_lam})', 'out': tol(np.array([int(asg_p[k]) for k in ids]))})
          # one cluster per client, centred on that client's data (every client has its own best cluster), clients listed
          # smallest first: whatever the backend and the padded geometry, client k must be assigned cluster k
          have = sorted([k for k in range(len(dss)) if len(dss[k])], key=lambda k: len(dss[k]))
          centres = [island.params_tree([island.R(float(v)) for v in np.mean(np.array(c['inst']['data'][k], np.float64), axis=0)]) for k in have]
          distinct = len({tuple(np.round(island.params_list(t), 6)) for t in centres}) == len(centres)
          if len(have) >= 2 and distinct and reg_lam == 0.0:
            for which, ev_ in (('jit', ale), ('pmap', ale_p)):
              own = hyp_cluster.maximization_step(ev_, centres, [(ids[k], dss[k], keys[k]) for k in have], fedjax.PaddedBatchHParams(batch_size=bs, num_batch_size_buckets=bk))
              ev.append({'e': 'Fact', 'name': 'EveryClientAssignedToItsOwnCentre', 'about': f'{name} geometry {(bs, bk)} backend {which}: {[int(own[ids[k]]) for k in have]}',
                         'holds': [int(own[ids[k]]) for k in have] == list(range(len(have)))})
      # Mime's full-batch server gradient with a regulariser: from a zero momentum trace, the trace after one round IS the
      # server gradient = mean over all cohort examples of (w - x) + lambda w (the regulariser exactly once)
      for reg_lam in (0.0, 0.5):
        rec = algs.run_rounds(fedjax, 'mime', c, pad_bs=bs, buckets=bk, base=fedjax.optimizers.sgd(0.25, momentum=0.5), server_lr=1.0, reg=reg_lam)
        if rec['error']:
          ev.append({'e': 'Fact', 'name': 'Runs', 'about': f'mime with regulariser {reg_lam} {name}: {rec["error"]}', 'holds': False})
          continue
        w0 = np.array([float(island.frac(x)) for x in c['inst']['init']], np.float64)
        allx = np.array([e_ for d_ in c['inst']['data'] for e_ in d_], np.float64).reshape(-1, len(w0))
        want_g = (w0 - allx.mean(0) if len(allx) else np.zeros_like(w0)) + reg_lam * w0
        trace = [np.asarray(x, np.float64).reshape(-1) for x in jax.tree_util.tree_leaves(rec['states'][1].opt_state)]
        flat = np.concatenate(trace) if trace else np.zeros(0)
        got_g = np.concatenate([flat[flat.size - len(w0):]]) if flat.size >= len(w0) else flat
        okg = got_g.shape == want_g.shape and np.allclose(np.sort(got_g), np.sort(want_g), rtol=1e-5, atol=1e-6)
        ev.append({'e': 'Fact', 'name': 'MimeServerGradientIsFullBatchGradientPlusRegulariserOnce', 'about': f'{name} geometry {(bs, bk)} regulariser {reg_lam}: trace {got_g.tolist()} expected {want_g.tolist()}',
                   'holds': bool(okg)})
      # Mime / MimeLite rounds (server gradient from padded batches enters through the optimizer state / control variate)
      for aname in ('mime', 'mime_lite'):
        rec = algs.run_rounds(fedjax, aname, c, pad_bs=bs, buckets=bk, base=fedjax.optimizers.sgd(0.25, momentum=0.5), server_lr=1.0, backend=gbackend)
        if rec['error']:
          ev.append({'e': 'Fact', 'name': 'Runs', 'about': f'{aname} {name}: {rec["error"]}', 'holds': False})
        else:
          st = rec['states'][-1]
          ev.append({'e': 'Fact', 'name': 'Finite', 'about': f'{aname} {name} geometry {(bs, bk)}: params {rec["rounds"][-1]}',
                     'holds': bool(np.all(np.isfinite(rec['rounds'][-1])))})
          ev.append({'e': 'Call', 'key': f'{aname} state after a round ({name})', 'out': tol((rec['rounds'][-1], jax.tree_util.tree_leaves(st.opt_state)))})
    ctx.case(key=('geom', i), nontrivial=sum(sizes) > 2, n=len(geoms))
  vs, _ = vtraces.validate_batch(ctx, 'PureHistory', [{'events': ev}], {}, 'PH')
  v = vs[0]
  if not v.ok:
    ctx.violation(f'facts:{v.inv or "rejected"}:{(v.state or "")[:90]}', f'a quantity derived from padded batches depends on the batch geometry: {v.inv} at event #{v.at} '
                  f'{v.event}; recorded {v.state}', replay={'events': ev[max(0, (v.at or 1) - 8):(v.at or 1) + 1]})
  ctx.leg('T', facts=len(ev))
