"""C15 - centralised streams over many clients neither lose nor duplicate.

Leg M: TLC on MultiBatch.tla (carry-over buffer machine vs. declarative chunking of the concatenation), on
       BufShuffle.tla (all initial permutations and swap indices) and on RepIter.tla; sensitivity controls.
Leg R: every final state of MultiBatch is replayed into padded_batch_client_datasets and
       padded_batch_federated_data.
Leg T: larger random size sequences; buffered_shuffle / shuffled_clients / buffered_shuffle_batch_client_datasets
       with a logging rng; RepeatableIterator over several kinds of base iterables; reproducibility by seed
       (PureHistory); all validated by TLC.
"""
import copy
import itertools
import shutil

import numpy as np

from vf import bat
from vf import traces as vtraces
from vf.core import Machinery

MB_INVS = ['ConcatPreserved', 'PrefixPreserved', 'AllButLastFull', 'LastPaddedByBucket', 'MaskIsPrefix',
           'BufferBounded', 'MismatchRejected']


def make_datasets(fedjax, sizes, variant, chain, bad=0, bad_kind='preprocessor'):
  pre = fedjax.BatchPreprocessor(bat.CHAINS[chain])
  dss, off = [], 0
  raws = []
  for ci, n in enumerate(sizes):
    raw = bat.raw_examples(n, variant, offset=off)
    off += n
    p = pre
    if bad and ci + 1 == bad:
      if bad_kind == 'preprocessor':
        p = fedjax.BatchPreprocessor(bat.CHAINS[chain])  # equal but not identical object
      elif bad_kind == 'missing':
        raw = {k_: v_ for k_, v_ in raw.items() if k_ != 'x'}     # a strict subset of the other clients' features
      else:
        raw = dict(raw)
        raw['extra'] = np.zeros((n,), np.int32)
    raws.append(raw)
    dss.append(fedjax.ClientDataset(raw, p))
  total = off
  ref = bat.apply_chain(chain, bat.raw_examples(total, variant))
  return dss, ref, raws


def run_multi(fedjax, sizes, bs, k, variant, chain, via_fd=False, bad=0, bad_kind='preprocessor', as_gen=True):
  dss, ref, raws = make_datasets(fedjax, sizes, variant, chain, bad, bad_kind)
  before = [bat.checksum(r) for r in raws]
  hp = fedjax.PaddedBatchHParams(batch_size=bs, num_batch_size_buckets=k)
  events = []
  try:
    if via_fd:
      cds = {b'%04d' % i: raws[i] for i in range(len(sizes))}
      fd = fedjax.InMemoryFederatedData(cds)
      for f in bat.CHAINS[chain]:
        fd = fd.preprocess_batch(f)
      # (hyper-parameters as an object, or an object overridden by keywords)
      it = (fedjax.padded_batch_federated_data(fd, hp) if (bs + k) % 2 else
            fedjax.padded_batch_federated_data(fd, fedjax.PaddedBatchHParams(batch_size=bs + 3, num_batch_size_buckets=k + 1), batch_size=bs, num_batch_size_buckets=k))
    else:
      src = (d for d in dss) if as_gen else dss
      it = (fedjax.padded_batch_client_datasets(src, hp) if (bs + k) % 2 else
            fedjax.padded_batch_client_datasets(src, fedjax.PaddedBatchHParams(batch_size=bs + 2, num_batch_size_buckets=k + 2), batch_size=bs, num_batch_size_buckets=k))
    for b in it:
      ids, mask, pz, ok = bat.check_batch(b, ref)
      events.append({'e': 'Batch', 'ids': ids, 'mask': mask, 'padzero': pz, 'feat_ok': ok})
  except ValueError as ex:
    events.append({'e': 'Error', 'kind': 'ValueError', 'msg': str(ex)[:80]})
  except Exception as ex:  # pylint: disable=broad-except
    events.append({'e': 'Error', 'kind': type(ex).__name__, 'msg': str(ex)[:80]})
  unchanged = before == [bat.checksum(r) for r in raws]
  events.append({'e': 'End', 'dataset_unchanged': unchanged})
  return events


def norm(batches):
  """Drops a trailing batch without real rows (freedom left by DESIGN 3.7)."""
  b = [(list(x[0]), list(x[1])) for x in batches]
  while b and not any(b[-1][1]):
    b.pop()
  return b


class LoggingRng(np.random.RandomState):
  """A RandomState that records what buffered_shuffle drew (the harness supplies the rng)."""

  def __init__(self, seed):
    super().__init__(seed)
    self.calls = []

  def shuffle(self, x):
    super().shuffle(x)
    self.calls.append(('shuffle', list(x)))

  def randint(self, *a, **kw):
    r = super().randint(*a, **kw)
    self.calls.append(('randint', int(r)))
    return r


def shuffle_trace(fedjax, length, b, seed, base_kind):
  from fedjax.core import client_datasets as cd  # pylint: disable=g-import-not-at-top
  rng = LoggingRng(seed)
  items = list(range(1, length + 1))
  src = iter(items) if base_kind == 'gen' else items
  it = cd.buffered_shuffle(src, b, rng)
  events = []
  seen_calls = 0
  out = []
  first = True
  while True:
    try:
      v = next(it)
    except StopIteration:
      break
    new = rng.calls[seen_calls:]
    seen_calls = len(rng.calls)
    if first:
      sh = [c for c in new if c[0] == 'shuffle']
      events.append({'e': 'Init', 'logged': True, 'buf': sh[0][1] if sh else []})
      first = False
    sw = [c[1] for c in new if c[0] == 'randint']
    events.append({'e': 'Yield', 'v': int(v), 'swap': sw[-1] if sw else -1})
    out.append(int(v))
  if first:
    sh = [c for c in rng.calls if c[0] == 'shuffle']
    events.append({'e': 'Init', 'logged': True, 'buf': sh[0][1] if sh else []})
  events.append({'e': 'End'})
  return {'len': length, 'b': b, 'expect_shuffled': length >= 10 and b >= 4, 'events': events,
          'meta': {'seed': seed, 'base': base_kind, 'fn': 'buffered_shuffle'}}, out


def run(ctx):
  import fedjax  # pylint: disable=g-import-not-at-top
  from fedjax.core import client_datasets as cd  # pylint: disable=g-import-not-at-top
  from fedjax.core import federated_data as fdm  # pylint: disable=g-import-not-at-top
  big = ctx.thorough
  rng = ctx.rng
  ctx.rule = ('case = (client size sequence, batch size, buckets) for the padded stream; (length, buffer size, seed, '
              'entry point) for buffered shuffling; (base kind, length) for RepeatableIterator; non-trivial = a batch '
              'spans two or more clients or a buffer smaller than the stream; distinct by those tuples')
  ctx.assumptions += ['a trailing batch without any real row may be emitted or not (both accepted)',
                      'non-trivial order is asserted only for streams of >= 10 items with buffers >= 4']
  # ---------------- leg M
  mb = dict(MaxClients=4 if big else 3, MaxSize=7 if big else 6, MaxBS=4, MaxK=3, ClearBuf=True, KeepOffset=True)
  r = ctx.model_check('MultiBatch', name='MultiBatch_M', constants=mb, invariants=MB_INVS + ['Emit'], workers=1)
  for tog, inv in (('ClearBuf', 'PrefixPreserved'), ('KeepOffset', 'PrefixPreserved')):
    c = dict(MaxClients=3, MaxSize=5, MaxBS=3, MaxK=2, ClearBuf=True, KeepOffset=True)
    c[tog] = False
    ctx.model_check('MultiBatch', expect=[inv, 'ConcatPreserved', 'BufferBounded', 'AllButLastFull'], name=f'MultiBatch_ctl_{tog}', constants=c,
                    invariants=MB_INVS, coverage=False)
  ctx.model_check('BufShuffle', name='BufShuffle_M', constants=dict(MaxL=7 if big else 6, MaxB=8 if big else 7, AllPerms=True, DrainAll=True),
                  invariants=['Conservation', 'EmitsEachOnce', 'NotBeforeBuffered'])
  ctx.model_check('BufShuffle', expect=['Conservation', 'EmitsEachOnce'], name='BufShuffle_ctl_DrainAll',
                  constants=dict(MaxL=5, MaxB=4, AllPerms=True, DrainAll=False),
                  invariants=['Conservation', 'EmitsEachOnce', 'NotBeforeBuffered'], coverage=False)
  ctx.model_check('RepIter', name='RepIter_M', constants=dict(MaxL=5, MaxPasses=4, ResetOnStop=True),
                  invariants=['LaterPassesEqualFirst', 'FirstPassIsBase'])
  ctx.model_check('RepIter', expect='LaterPassesEqualFirst', name='RepIter_ctl', constants=dict(MaxL=4, MaxPasses=3, ResetOnStop=False),
                  invariants=['LaterPassesEqualFirst', 'FirstPassIsBase'], coverage=False)
  ctx.require_actions(['Fits', 'EmitBufHead', 'NoBuf', 'EmitWhole', 'BufTail', 'Flush', 'Reject', 'FillStep', 'SwapStep',
                       'Drain', 'Finish', 'NextItem', 'StopPass'])

  # ---------------- leg R: replay MultiBatch final states
  cases = [c for c in r.json]
  replayed = 0
  for ci, c in enumerate(cases):
    if not big and ci % 3 and len(c['sizes']) == 3:
      continue
    sizes = list(c['sizes'])
    variant, chain = bat.FEATURE_SETS[ci % 2], ci % len(bat.CHAINS)
    ev = run_multi(fedjax, sizes, c['bs'], c['k'], variant, chain, via_fd=(ci % 4 == 1 and len(sizes) > 0), as_gen=(ci % 2 == 0))
    got = [(e['ids'], e['mask']) for e in ev if e['e'] == 'Batch']
    exp = [(b['ids'], b['mask']) for b in c['out']]
    spans = any(len(set(np.searchsorted(np.cumsum(sizes), [i for i in b[0] if i], side='left'))) > 1 for b in exp)
    ctx.case(key=('mb', tuple(sizes), c['bs'], c['k']), nontrivial=spans)
    replayed += 1
    cfg = dict(sizes=sizes, batch_size=c['bs'], buckets=c['k'], features=variant, chain=chain, via_federated_data=(ci % 4 == 1))
    err = [e for e in ev if e['e'] == 'Error']
    if err:
      ctx.violation('replay:padded_multi:error', f'unexpected {err[0]} for {cfg}', replay={'cfg': cfg})
    elif norm(got) != norm(exp):
      ctx.violation('replay:padded_multi:batches', f'real batches differ from the specification for {cfg}: expected '
                    f'{norm(exp)} got {norm(got)}', replay={'cfg': cfg, 'expected': exp, 'actual': got})
    elif not all(e.get('padzero', True) and e.get('feat_ok', True) for e in ev):
      ctx.violation('replay:padded_multi:rows', f'padded rows not zero or a feature is not the preprocessed example for {cfg}',
                    replay={'cfg': cfg})
    elif not ev[-1]['dataset_unchanged']:
      ctx.violation('replay:padded_multi:mutated', f'client datasets were mutated for {cfg}', replay={'cfg': cfg})
  ctx.trace_ok(replayed)
  ctx.leg('R', behaviours=len(cases), replays=replayed)
  ctx.sample({'leg': 'R', 'case': cases[len(cases) // 3]})

  # ---------------- leg T (1): larger size sequences incl. mismatching clients
  trs = []
  for _ in range(900 if big else 160):
    m = rng.randint(0, 7)
    bs = rng.randint(1, 9)
    sizes = [rng.choice([0, 0, 1, bs - 1, bs, bs + 1, 2 * bs, 3 * bs + 1, rng.randint(0, 25)]) for _ in range(m)]
    sizes = [max(0, s) for s in sizes]
    k = rng.randint(1, 5)
    bad = rng.choice([0, 0, 0] + list(range(2, m + 1))) if m >= 2 else 0
    kind = rng.choice(['preprocessor', 'features'])
    ev = run_multi(fedjax, sizes, bs, k, rng.choice(bat.FEATURE_SETS), rng.choice(list(bat.CHAINS)),
                   via_fd=(bad == 0 and m > 0 and rng.random() < .3), bad=bad, bad_kind=kind, as_gen=rng.random() < .5)
    trs.append({'sizes': sizes, 'bs': bs, 'k': k, 'bad': bad, 'meta': {'bad_kind': kind}, 'events': ev})
    ctx.case(key=('mbT', tuple(sizes), bs, k, bad), nontrivial=sum(1 for s in sizes if 0 < s) >= 2)
  mbc = dict(MaxClients=0, MaxSize=0, MaxBS=1, MaxK=1, ClearBuf=True, KeepOffset=True)
  verdicts, _ = vtraces.validate_batch(ctx, 'MultiBatchTrace', trs, mbc, 'MB')
  report(ctx, trs, verdicts, 'padded_multi', lambda t: {k: t[k] for k in ('sizes', 'bs', 'k', 'bad')})
  ctx.sample({'leg': 'T', 'trace': trs[5]})

  # ---------------- leg T (2): buffered shuffling
  strs = []
  ph = []  # PureHistory events for reproducibility
  for _ in range(500 if big else 120):
    length = rng.choice([0, 1, 2, rng.randint(3, 30), rng.randint(10, 30)])
    b = rng.choice([1, 2, rng.randint(1, 12), length, length + 3]) or 1
    seed = rng.randint(0, 10**6)
    kind = rng.choice(['list', 'gen'])
    t, out = shuffle_trace(fedjax, length, b, seed, kind)
    strs.append(t)
    _, out2 = shuffle_trace(fedjax, length, b, seed, kind)
    ph.append({'e': 'Call', 'key': f'buffered_shuffle({length},{b},{seed})', 'out': ctx_intern(ctx, out)})
    ph.append({'e': 'Call', 'key': f'buffered_shuffle({length},{b},{seed})', 'out': ctx_intern(ctx, out2)})
    ctx.case(key=('bs', length, b, seed), nontrivial=b < length)
  # shuffled_clients over a real federated dataset: rng internal -> swaps inferred by TLC
  for sc_i in range(60 if big else 24):
    ncl = rng.randint(1, 9)
    b = rng.choice([1, 2, 3, 5, ncl, ncl + 1, ncl + 2, ncl + 7])     # buffers shorter than, equal to and longer than the population
    if min(b, ncl) > 6:
      ncl = rng.randint(1, 6)       # (the trace specification enumerates the min(b, n)! initial fills)
    seed = rng.choice([0, rng.randint(1, 10**6)])
    fd = fedjax.InMemoryFederatedData({b'c%03d' % i: {'x': np.arange(i + 1)} for i in range(ncl)})
    fd_kind = ('InMemoryFederatedData', 'SubsetFederatedData', 'slice')[sc_i % 3]
    if fd_kind != 'InMemoryFederatedData':
      # the same population as a derived view of a larger dataset
      more = {b'c%03d' % i: {'x': np.arange(i + 1)} for i in range(ncl)}
      more.update({b'a-before': {'x': np.arange(2)}, b'z-after': {'x': np.arange(3)}})
      wider = fedjax.InMemoryFederatedData(more)
      fd = fedjax.SubsetFederatedData(wider, [b'c%03d' % i for i in range(ncl)]) if fd_kind == 'SubsetFederatedData' else wider.slice(start=b'c', stop=b'd')
    order = {cid: i + 1 for i, cid in enumerate(fd.client_ids())}
    it = fd.shuffled_clients(buffer_size=b, seed=seed)
    passes = [[order[next(it)[0]] for _ in range(ncl)] for _ in range(2)]
    it2 = fd.shuffled_clients(buffer_size=b, seed=seed)
    again = [[order[next(it2)[0]] for _ in range(ncl)] for _ in range(2)]
    ph.append({'e': 'Call', 'key': f'{fd_kind}.shuffled_clients({ncl},{b},{seed})', 'out': ctx_intern(ctx, passes)})
    ph.append({'e': 'Call', 'key': f'{fd_kind}.shuffled_clients({ncl},{b},{seed})', 'out': ctx_intern(ctx, again)})
    for p in passes:
      ev = [{'e': 'Init', 'logged': False, 'buf': []}] + [{'e': 'Yield', 'v': v, 'swap': -1} for v in p] + [{'e': 'End'}]
      strs.append({'len': ncl, 'b': b, 'expect_shuffled': False, 'events': ev,
                   'meta': {'seed': seed, 'fn': fd_kind + '.shuffled_clients'}})
    ctx.case(key=('sc', fd_kind, ncl, b, seed), nontrivial=b < ncl or fd_kind != 'InMemoryFederatedData')
  # buffered_shuffle_batch_client_datasets: harness rng -> fully logged; the flattened stream is one shuffle pass
  for _ in range(200 if big else 40):
    m = rng.randint(0, 5)
    sizes = [rng.randint(0, 6) for _ in range(m)]
    bs, b, seed = rng.randint(1, 5), rng.randint(1, 8), rng.randint(0, 10**6)
    variant, chain = rng.choice(bat.FEATURE_SETS), rng.choice(list(bat.CHAINS))
    dss, ref, _ = make_datasets(fedjax, sizes, variant, chain)
    lr = LoggingRng(seed)
    batches = [bat.check_batch(x, ref) for x in cd.buffered_shuffle_batch_client_datasets((d for d in dss), bs, b, lr)]
    flat = [i for bt in batches for i in bt[0]]
    total = sum(sizes)
    ev = []
    sh = [c for c in lr.calls if c[0] == 'shuffle']
    # items of the shuffle are (examples, index) pairs: the logged buffer holds tuples; recover ids from the output
    swaps = [c[1] for c in lr.calls if c[0] == 'randint']
    ev.append({'e': 'Init', 'logged': False, 'buf': []})
    for j, v in enumerate(flat):
      ev.append({'e': 'Yield', 'v': v, 'swap': swaps[j] if j < len(swaps) else -1})
    ev.append({'e': 'End'})
    if total > 0:
      strs.append({'len': total, 'b': b, 'expect_shuffled': False, 'events': ev,
                   'meta': {'seed': seed, 'fn': 'buffered_shuffle_batch_client_datasets', 'sizes': sizes, 'bs': bs}})
    sizes_ok = all(len(bt[0]) == bs for bt in batches[:-1]) and (not batches or 1 <= len(batches[-1][0]) <= bs)
    ph.append({'e': 'Fact', 'name': 'ShuffleBatchesFull', 'about': f'sizes={sizes},bs={bs},buffer={b}', 'holds': bool(sizes_ok)})
    ph.append({'e': 'Fact', 'name': 'ShuffleBatchFeatures', 'about': f'sizes={sizes},bs={bs},buffer={b}',
               'holds': all(bt[3] for bt in batches)})
    ctx.case(key=('bsb', tuple(sizes), bs, b, seed), nontrivial=b < total)
  # mismatch rejection in the shuffled variant
  for bad_kind in ('preprocessor', 'features', 'missing'):
    for bad in (2, 3):
      dss, _, _ = make_datasets(fedjax, [2, 3, 2], 'A', 1, bad, bad_kind)
      try:
        list(cd.buffered_shuffle_batch_client_datasets(dss, 2, 3, np.random.RandomState(0)))
        ok = False
      except ValueError:
        ok = True
      except Exception as ex_:  # pylint: disable=broad-except
        ok = False               # (accepted at first and failing later with another error is not a rejection)
        bad_kind = f'{bad_kind} ({type(ex_).__name__})'
      ph.append({'e': 'Fact', 'name': 'ShuffledMismatchRejected', 'about': f'{bad_kind}@{bad}', 'holds': ok})
  # shuffle_repeat_batch_federated_data: seeded reproducibility and weak conservation over the first pass
  for _ in range(60 if big else 14):
    ncl = rng.randint(1, 6)
    sizes = [rng.randint(0, 5) for _ in range(ncl)]
    if sum(sizes) == 0:
      sizes[0] = 2
    bs, cb, eb = rng.randint(1, 4), rng.randint(1, 4), rng.randint(1, 6)
    seed = rng.choice([0, 0, rng.randint(1, 10**6)])
    off = 0
    cds = {}
    for i, n in enumerate(sizes):
      cds[b'k%02d' % i] = bat.raw_examples(n, 'A', offset=off)
      off += n
    total = off
    fd = fedjax.InMemoryFederatedData(cds)
    nb = (total + eb + bs - 1) // bs + 1

    def pull():
      return [[int(v) for v in x['id']] for x in itertools.islice(
          fdm.shuffle_repeat_batch_federated_data(fd, bs, cb, eb, seed), nb)]

    a, bb = pull(), pull()
    key = f'shuffle_repeat_batch_federated_data({sizes},{bs},{cb},{eb},{seed})'
    ph.append({'e': 'Call', 'key': key, 'out': ctx_intern(ctx, a)})
    ph.append({'e': 'Call', 'key': key, 'out': ctx_intern(ctx, bb)})
    flat = [i for x in a for i in x]
    # (an item may stay in a shuffle buffer arbitrarily long, so no coverage claim is made for a finite prefix;
    #  every emitted id must be an example of the dataset)
    ph.append({'e': 'Fact', 'name': 'OnlyDatasetExamples', 'about': key, 'holds': set(flat) <= set(range(1, total + 1))})
    ph.append({'e': 'Fact', 'name': 'AllBatchesFull', 'about': key, 'holds': all(len(x) == bs for x in a)})
    # the stream repeats: several passes can be drawn, whatever the buffer sizes (1 included), and over them every example
    # is used about equally often
    want_n = 3 * ((total + bs - 1) // bs) + 2
    long_run = [[int(v) for v in x['id']] for x in itertools.islice(fdm.shuffle_repeat_batch_federated_data(fd, bs, cb, eb, seed), want_n)]
    ph.append({'e': 'Fact', 'name': 'StreamRepeats', 'about': f'{key}: {len(long_run)} of {want_n} batches', 'holds': len(long_run) == want_n})
    ctx.case(key=('srb', tuple(sizes), bs, cb, eb, seed), nontrivial=total > bs)
  bsc = dict(MaxL=0, MaxB=1, AllPerms=False, DrainAll=True)
  verdicts, _ = vtraces.validate_batch(ctx, 'BufShuffleTrace', strs, bsc, 'BS')
  report(ctx, strs, verdicts, 'buffered_shuffle', lambda t: dict(len=t['len'], buffer=t['b'], **t['meta']))
  ctx.sample({'leg': 'T', 'trace': strs[2]})
  vph, _ = vtraces.validate_batch(ctx, 'PureHistory', [{'events': ph}], {}, 'PH')
  v = vph[0]
  if not v.ok:
    ctx.violation(f'facts:{v.inv or "rejected"}:{(v.state or "")[:80]}', f'relational facts violated: {v.inv} at event #{v.at} {v.event}; '
                  f'recorded {v.state}', replay={'events': ph[max(0, (v.at or 1) - 3):(v.at or 1) + 1]})

  # ---------------- clients that agree on the feature names but not on the dtype (string widths, int then float): rows unaltered
  nh = 0
  for order in ([0, 1, 2], [2, 0, 1], [1, 2, 0], [0, 2, 1]):
    for bs in (2, 3, 5, 7):
      pieces = [{'id': np.array([1, 2], np.int32), 's': np.array([b'a', b'b'], dtype='S1'), 'v': np.array([1, 2], np.int32)},
                {'id': np.array([3, 4, 5], np.int32), 's': np.array([b'ccc', b'dd', b'e'], dtype='S3'), 'v': np.array([0.5, 1.5, 2.5], np.float32)},
                {'id': np.array([6], np.int32), 's': np.array([b'ffffff'], dtype='S6'), 'v': np.array([7], np.int64)}]
      want = {1: (b'a', 1.0), 2: (b'b', 2.0), 3: (b'ccc', 0.5), 4: (b'dd', 1.5), 5: (b'e', 2.5), 6: (b'ffffff', 7.0)}
      dss_h = [fedjax.ClientDataset(pieces[i]) for i in order]
      nh += 1
      ctx.case(key=('hetero', tuple(order), bs), nontrivial=True)
      try:
        seen_ids = []
        for b in fedjax.padded_batch_client_datasets(dss_h, fedjax.PaddedBatchHParams(batch_size=bs)):
          for r in range(len(b['id'])):
            if b['__mask__'][r]:
              i = int(b['id'][r])
              seen_ids.append(i)
              if bytes(b['s'][r]) != want[i][0] or float(b['v'][r]) != want[i][1]:
                ctx.violation('replay:padded_multi:values', f'row of example {i} reads s={bytes(b["s"][r])!r} v={float(b["v"][r])}, the dataset has {want[i]} '
                              f'(clients with dtypes S1/int32, S3/float32, S6/int64 listed in order {order}, batch size {bs})', replay={'order': order, 'bs': bs})
        if seen_ids != [i for o in order for i in pieces[o]['id'].tolist()]:
          ctx.violation('replay:padded_multi:values', f'ids {seen_ids} for clients in order {order}, batch size {bs}', replay={'order': order, 'bs': bs})
      except Exception as ex:  # pylint: disable=broad-except
        ctx.violation('replay:padded_multi:hetero-exception', f'{type(ex).__name__}: {str(ex)[:150]} for clients of different dtypes, order {order}, batch size {bs}', replay={'order': order, 'bs': bs})
  ctx.trace_ok(nh)

  # ---------------- leg T (3): RepeatableIterator
  rtrs = []
  class Rotating:
    """An iterable (not an iterator) whose every iter() starts one item further: a view with per-iteration order."""

    def __init__(self, items):
      self.items, self.calls = items, 0

    def __iter__(self):
      k = self.calls % max(1, len(self.items))
      self.calls += 1
      return iter(self.items[k:] + self.items[:k])

  class OneShot:
    """An iterable wrapping a one-shot stream: only its first iter() yields anything."""

    def __init__(self, items):
      self.stream = (x for x in items)

    def __iter__(self):
      return self.stream

  import collections  # pylint: disable=g-import-not-at-top
  for kind in ('list', 'tuple', 'gen', 'range', 'dict', 'str', 'map', 'bytes', 'rotating', 'oneshot', 'ndarray', 'deque'):
    for length in (0, 1, 2, 5, 9):
      items = list(range(1, length + 1))
      base = {'rotating': Rotating(items), 'oneshot': OneShot(items), 'ndarray': np.array(items, np.int64), 'deque': collections.deque(items),
              'list': items, 'tuple': tuple(items), 'gen': (x for x in items), 'range': range(1, length + 1),
              'dict': {x: None for x in items}, 'str': ''.join(chr(64 + x) for x in items), 'map': map(int, items),
              'bytes': bytes(items)}[kind]
      dec = (lambda v: ord(v) - 64) if kind == 'str' else int
      it = fdm.RepeatableIterator(base)
      ev = []
      for pi in range(3):
        # a pass is read in one for loop, or in pieces (each islice / loop resumption calls iter() on it again)
        style = (length + pi + len(kind)) % 3
        if style == 0:
          for v in it:
            ev.append({'e': 'Item', 'v': dec(v)})
        elif style == 1:
          while True:
            piece = list(itertools.islice(it, 3))
            for v in piece:
              ev.append({'e': 'Item', 'v': dec(v)})
            if len(piece) < 3:
              break
            if len(ev) > 200:
              break
        else:
          n_seen = 0
          while n_seen <= 200:
            got_one = False
            for v in it:           # resumed after every second item
              ev.append({'e': 'Item', 'v': dec(v)})
              n_seen += 1
              got_one = True
              if n_seen % 2 == 0:
                break
            else:
              break
            if not got_one:
              break
        ev.append({'e': 'Stop'})
      ev.append({'e': 'End'})
      rtrs.append({'len': length, 'container': kind in ('list', 'tuple', 'dict', 'str', 'bytes'), 'events': ev, 'meta': {'base': kind}})
      ctx.case(key=('ri', kind, length), nontrivial=length > 0)
  verdicts, _ = vtraces.validate_batch(ctx, 'RepIterTrace', rtrs, dict(MaxL=0, MaxPasses=99, ResetOnStop=True), 'RI')
  report(ctx, rtrs, verdicts, 'repeatable_iterator', lambda t: dict(len=t['len'], **t['meta']))
  ctx.leg('T', multi_traces=len(trs), shuffle_traces=len(strs), relational_events=len(ph), repiter_traces=len(rtrs))

  # ---------------- binding control
  bad = copy.deepcopy(next(t for t in strs if t['len'] >= 5 and t['meta'].get('fn') == 'buffered_shuffle'))
  ys = [e for e in bad['events'] if e['e'] == 'Yield']
  ys[1]['v'] = ys[0]['v']
  sub = type(ctx)(ctx.pid + '_ctl', ctx.tier, ctx.seed)
  vs, _ = vtraces.validate_batch(sub, 'BufShuffleTrace', [bad], bsc, 'ctl')
  ok = not vs[0].ok
  ctx.controls.append({'run': 'binding: an item emitted twice by buffered_shuffle', 'expected_violation': 'rejected', 'got': repr(vs[0]), 'ok': ok})
  shutil.rmtree(sub.scratch, ignore_errors=True)
  if not ok:
    raise Machinery('binding control: corrupted trace accepted')


_INTERN = {}


def ctx_intern(ctx, value):
  key = repr(value)
  if key not in _INTERN:
    _INTERN[key] = len(_INTERN) + 1
  return _INTERN[key]


def report(ctx, trs, verdicts, what, cfg_of):
  for t, v in zip(trs, verdicts):
    if v.ok:
      continue
    cfg = cfg_of(t)
    if v.kind == 'violated':
      ctx.violation(f'trace:{what}:{v.inv}', f'real {what} run violates {v.inv} for {cfg}', replay={'cfg': cfg, 'trace': t})
    else:
      ctx.violation(f'trace:{what}:rejected@{v.event["e"]}', f'real {what} run is not a behaviour of the specification for {cfg}: '
                    f'event #{v.at} {v.event} in spec state {v.state}', replay={'cfg': cfg, 'trace': t})
