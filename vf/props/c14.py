"""C14 - every built-in metric equals its definition on its whole domain.

Leg M: TLC evaluates the TLA+ definitions (MetricDefs.tla) on the full small domain (MetricCases.tla) and checks the
       documented identities; deviations (tie-break, OOV product, negative k) as sensitivity controls.
Leg R: the complete case table is replayed into each metric's evaluate_example (through jax.vmap, as evaluate_batch
       calls it, and directly); statistic and result compared exactly.  Cross-entropy metrics: which tokens / which
       weight from the specification, per-token loss from a float64 NumPy log-softmax (numeric leaf).
"""
import collections

import numpy as np

from vf.core import Machinery

INVS = ['Top1IsAccuracy', 'TopKExtremes', 'TiesLowestIndex', 'ConfusionTrace', 'PerDomainRestriction', 'FullyMaskedIsZero',
        'OovCountsMembers', 'PerPositionSumsToWhole']
TOG = dict(TieLowest=True, OovIsMember=True, NegKZero=True)


def make_metric(metrics, c, C, finite_mask=False):
  """finite_mask: a banned class gets the logit mask -1e9 instead of -inf (a finite mask entry is ADDED to the score; with
  scores in 0..2 the effect is the same: the class is never predicted)."""
  m = c['m']
  masked = tuple(c.get('masked', ()))
  banned = c.get('banned', [])
  lm = tuple((-1e9 if finite_mask else float('-inf')) if i in banned else 0. for i in range(C)) if banned else None
  if m == 'accuracy':
    return metrics.Accuracy()
  if m == 'topk':
    return metrics.TopKAccuracy(k=c['k'])
  if m == 'confusion':
    return metrics.ConfusionMatrix(num_classes=C)
  if m == 'per_domain_accuracy':
    return metrics.PerDomainMetric(metrics.Accuracy(), num_domains=2)
  if m in ('tok_acc', 'tok_acc_pp'):
    return metrics.SequenceTokenAccuracy(masked_target_values=masked, logits_mask=lm, per_position=m.endswith('_pp'))
  if m in ('tok_topk', 'tok_topk_pp'):
    return metrics.SequenceTokenTopKAccuracy(k=c['k'], masked_target_values=masked, logits_mask=lm, per_position=m.endswith('_pp'))
  if m == 'tok_count':
    return metrics.SequenceTokenCount(masked_target_values=masked)
  if m == 'seq_count':
    return metrics.SequenceCount(masked_target_values=masked)
  if m == 'length':
    return metrics.SequenceLength(masked_target_values=masked)
  if m == 'trunc':
    return metrics.SequenceTruncationRate(eos_target_value=c['eos'], masked_target_values=masked)
  if m in ('oov', 'oov_pp'):
    return metrics.SequenceTokenOOVRate(oov_target_values=tuple(c['oov']), masked_target_values=masked, per_position=m.endswith('_pp'))
  raise Machinery('unknown metric ' + m)


def cfg_key(c):
  return (c['m'], c.get('k'), tuple(c.get('masked', ())), tuple(c.get('banned', ())), tuple(c.get('oov', ())), c.get('eos'))


def expected_arrays(c, stat, C):
  """Spec statistic -> dict of numpy arrays in the layout of the real Stat."""
  m = c['m']
  if m == 'confusion':
    return {'accum': np.array([[stat[r][col] for col in range(C)] for r in range(C)], np.float64)} if isinstance(stat, list) else \
        {'accum': np.array([[stat[str(r)][str(col)] if isinstance(stat[str(r)], dict) else stat[str(r)][col] for col in range(C)] for r in range(C)], np.float64)}
  if m == 'per_domain_accuracy':
    seq = stat if isinstance(stat, list) else [stat[str(i)] for i in range(2)]
    return {'accum': np.array([s['a'] for s in seq], np.float64), 'weight': np.array([s['w'] for s in seq], np.float64)}
  if m.endswith('_pp'):
    return {'accum': np.array([s['a'] for s in stat], np.float64), 'weight': np.array([s['w'] for s in stat], np.float64)}
  if m in ('tok_count', 'seq_count'):
    return {'accum': np.float64(stat['a'])}
  return {'accum': np.float64(stat['a']), 'weight': np.float64(stat['w'])}


def finding_key(c):
  m = c['m']
  if m in ('topk', 'tok_topk', 'tok_topk_pp') and c['k'] < 0:
    return 'topk-negative-k'
  if m in ('oov', 'oov_pp') and len(c.get('oov', ())) >= 2:
    return 'oov-rate-two-or-more-values'
  return f'stat:{m}'


def log_softmax64(x):
  x = np.asarray(x, np.float64)
  mx = np.max(x, axis=-1, keepdims=True)
  return x - mx - np.log(np.sum(np.exp(x - mx), axis=-1, keepdims=True))


def run(ctx):
  import jax  # pylint: disable=g-import-not-at-top
  import jax.numpy as jnp  # pylint: disable=g-import-not-at-top
  from fedjax.core import metrics  # pylint: disable=g-import-not-at-top
  big = ctx.thorough
  C = 3
  ctx.rule = ('case = (metric class, constructor arguments, target(s), score vector(s)); the table is the full small domain '
              '(3 classes, scores 0..2, sequences of length 2 (quick) / 3 (thorough), k in -3..4, masked/banned/oov sets); '
              'non-trivial = a tie between class scores, a masked token, a logit mask or k outside 1..C-1; distinct by the case')
  ctx.assumptions += ['cross-entropy values: which tokens and which weight come from the specification, the per-token '
                      'loss from a float64 NumPy log-softmax (numeric leaf outside TLA+)']
  base = dict(C=C, ScoreMax=2, SeqLen=3 if big else 2, **TOG)
  rs = ctx.model_check('MetricCases', name='MetricCases_single', constants=dict(base, Family='single'), invariants=INVS + ['Emit'], workers=1)
  rq = ctx.model_check('MetricCases', name='MetricCases_sequence', constants=dict(base, Family='sequence'), invariants=INVS + ['Emit'], workers=1,
                       timeout=3000)
  for tog, fam, inv in (('TieLowest', 'single', 'TiesLowestIndex'), ('OovIsMember', 'sequence', 'OovCountsMembers'), ('NegKZero', 'single', 'TopKExtremes')):
    c = dict(C=C, ScoreMax=2, SeqLen=2, Family=fam, **TOG)
    c[tog] = False
    ctx.model_check('MetricCases', expect=inv, name=f'MetricCases_ctl_{tog}', constants=c, invariants=INVS, coverage=False)
  ctx.require_actions(['Evaluate'])
  cases = rs.json + rq.json
  groups = collections.defaultdict(list)
  for j in cases:
    groups[cfg_key(j['c'])].append(j)
  replayed = 0
  xent_groups = []
  for key, items in groups.items():
    c0 = items[0]['c']
    if c0['m'] == 'xent_tokens':
      xent_groups.append(items)
      continue
    metric = make_metric(metrics, c0, C)
    single = 'scores' in c0
    if single:
      tg = np.array([it['c']['target'] for it in items], np.int32)
      pr = np.array([it['c']['scores'] for it in items], np.float32)
      ex = {'y': tg}
      if c0['m'] == 'per_domain_accuracy':
        ex['domain_id'] = np.array([it['c']['d'] for it in items], np.int32)
    else:
      tg = np.array([it['c']['target'] for it in items], np.int32)
      pr = np.array([it['c']['preds'] for it in items], np.float32)
      ex = {'y': tg}
    try:
      st = jax.vmap(metric.evaluate_example)(ex, jnp.array(pr))
      got = {f: np.asarray(getattr(st, f), np.float64) for f in ('accum', 'weight') if hasattr(st, f)}
      res = np.asarray(jax.vmap(lambda s: s.result())(st), np.float64)
    except Exception as ex_:  # pylint: disable=broad-except
      ctx.violation(f'exception:{c0["m"]}:{type(ex_).__name__}', f'{type(ex_).__name__}: {ex_} evaluating {c0["m"]} with {key}', replay={'cfg': c0})
      continue
    # a second realisation of the same abstract cases: the score 0 as a signed zero (-0.0 at even class indices, +0.0 at odd
    # ones: equal scores, so ties still go to the lowest index) and banned classes through a finite mask entry
    try:
      pr2 = np.where(pr == 0, np.where(np.arange(pr.shape[-1]) % 2 == 0, -0.0, 0.0).astype(np.float32), pr).astype(np.float32)
      st2 = jax.vmap(make_metric(metrics, c0, C, finite_mask=True).evaluate_example)(ex, jnp.array(pr2))
      for f in got:
        g2 = np.asarray(getattr(st2, f), np.float64)
        if not np.array_equal(g2, got[f]):
          idx2 = int(np.argwhere(np.any((g2 != got[f]).reshape(len(items), -1), axis=1))[0][0])
          ctx.violation(finding_key(items[idx2]['c']) + ':signed-zero-or-finite-mask', f'{type(metric).__name__} with {dict((k, v) for k, v in items[idx2]["c"].items() if k not in ("target", "scores", "preds"))}: '
                        f'{f} changes when the score 0 is written as -0.0/+0.0 and banned classes are masked with -1e9 instead of -inf; target={items[idx2]["c"]["target"]} '
                        f'scores={pr2[idx2].tolist()}: {g2[idx2].tolist()} vs {got[f][idx2].tolist()}', replay={'case': items[idx2]['c']})
          break
      replayed += len(items)
    except Exception as ex_:  # pylint: disable=broad-except
      ctx.violation(f'exception:{c0["m"]}:{type(ex_).__name__}', f'{type(ex_).__name__}: {ex_} evaluating {c0["m"]} with signed zeros / a finite mask, {key}', replay={'cfg': c0})
    for idx, it in enumerate(items):
      c = it['c']
      exp = expected_arrays(c, it['stat'], C)
      replayed += 1
      ties = (single and len(set(c['scores'])) < C) or (not single)
      ctx.case(key=repr(sorted(c.items())), nontrivial=bool(ties))
      bad = None
      for f, e in exp.items():
        g = got[f][idx]
        if g.shape != np.shape(e) or not np.array_equal(g, e):
          bad = (f, g.tolist(), np.asarray(e).tolist())
          break
      if bad is None and 'weight' in exp:
        with np.errstate(divide='ignore', invalid='ignore'):
          er = np.where(exp['weight'] == 0, 0., exp['accum'] / np.where(exp['weight'] == 0, 1, exp['weight']))
        if not np.allclose(res[idx], er, rtol=1e-6, atol=0):
          bad = ('result', res[idx].tolist(), er.tolist())
      if bad:
        ctx.violation(finding_key(c), f'{type(metric).__name__} with {dict((k, v) for k, v in c.items() if k not in ("target", "scores", "preds"))} on '
                      f'target={c["target"]} scores={c.get("scores", c.get("preds"))}: {bad[0]} is {bad[1]}, the definition gives {bad[2]}',
                      replay={'case': c, 'field': bad[0], 'actual': bad[1], 'expected': bad[2]})
    # direct (non-vmapped) calls on a few cases
    for it in items[:: max(1, len(items) // 3)][:3]:
      c = it['c']
      exd = {'y': jnp.array(c['target'], jnp.int32)}
      if c['m'] == 'per_domain_accuracy':
        exd['domain_id'] = jnp.array(c['d'], jnp.int32)
      st1 = metric.evaluate_example(exd, jnp.array(c.get('scores', c.get('preds')), jnp.float32))
      exp = expected_arrays(c, it['stat'], C)
      for f, e in exp.items():
        if not np.array_equal(np.asarray(getattr(st1, f), np.float64), e):
          ctx.violation(finding_key(c) + ':direct', f'{type(metric).__name__} direct call differs from the definition on {c}', replay={'case': c})
  # cross-entropy family: combinatorial part from the spec, numeric leaf from float64 numpy
  nprng = np.random.RandomState(ctx.seed)
  for items in xent_groups:
    c0 = items[0]['c']
    masked = tuple(c0['masked'])
    L = len(c0['target'])
    tg = np.array([it['c']['target'] for it in items], np.int32)
    w = np.array([it['stat'] for it in items], np.float64)
    for scale in (1.0, 30.0, 1e4):
      pr = (nprng.randn(len(items), L, C) * scale).astype(np.float32)
      lp = log_softmax64(pr)
      tok = -np.take_along_axis(lp, tg[..., None].astype(np.int64), axis=-1)[..., 0]
      m1 = metrics.SequenceTokenCrossEntropyLoss(masked_target_values=masked)
      m2 = metrics.SequenceCrossEntropyLoss(masked_target_values=masked)
      m3 = metrics.SequenceTokenCrossEntropyLoss(masked_target_values=masked, per_position=True)
      for mm, ea, ew, nm in ((m1, (tok * w).sum(-1), w.sum(-1), 'SequenceTokenCrossEntropyLoss'),
                             (m2, (tok * w).sum(-1), (w.sum(-1) > 0).astype(np.float64), 'SequenceCrossEntropyLoss'),
                             (m3, tok * w, w, 'SequenceTokenCrossEntropyLoss(per_position)')):
        st = jax.vmap(mm.evaluate_example)({'y': tg}, jnp.array(pr))
        ga, gw = np.asarray(st.accum, np.float64), np.asarray(st.weight, np.float64)
        ea = np.where(ew == 0, 0., ea)
        replayed += len(items)
        ctx.case(key=('xent', nm, masked, scale, L), nontrivial=True, n=len(items))
        if not np.array_equal(gw, ew):
          ctx.violation(f'xent-weight:{nm}', f'{nm} masked={masked}: weights differ from the definition (which tokens count)', replay={'masked': masked})
        elif not np.allclose(ga, ea, rtol=2e-5, atol=2e-5 * scale):
          i = int(np.argmax(np.abs(ga - ea).reshape(len(items), -1).max(-1)))
          ctx.violation(f'xent-value:{nm}', f'{nm} masked={masked} scale={scale}: loss {ga[i].tolist()} vs float64 reference {ea[i].tolist()} '
                        f'for target {tg[i].tolist()}', replay={'masked': masked, 'target': tg[i].tolist(), 'preds': pr[i].tolist()})
  # CrossEntropyLoss (single label)
  for scale in (1.0, 1e4):
    pr = (nprng.randn(200, C) * scale).astype(np.float32)
    tg = nprng.randint(0, C, size=200).astype(np.int32)
    st = jax.vmap(metrics.CrossEntropyLoss().evaluate_example)({'y': tg}, jnp.array(pr))
    ref = -np.take_along_axis(log_softmax64(pr), tg[:, None].astype(np.int64), axis=-1)[:, 0]
    replayed += 200
    ctx.case(key=('xent1', scale), nontrivial=True, n=200)
    if not (np.allclose(np.asarray(st.accum, np.float64), ref, rtol=2e-5, atol=2e-5 * scale) and np.all(np.asarray(st.weight) == 1)):
      ctx.violation('xent-value:CrossEntropyLoss', f'CrossEntropyLoss differs from the float64 reference at scale {scale}', replay={'scale': scale})
  # -inf logits (a masked class) and float32-extreme spreads: the loss of a target whose log-probability is -inf is +inf,
  # a target that keeps all the mass has loss 0; never NaN, never silently 0 for an impossible target
  ninf = float('-inf')
  inf_cases = [([0.0, ninf, 1.0], 1, np.inf), ([0.0, ninf, 1.0], 0, float(np.log1p(np.e))), ([ninf, ninf, 2.0], 2, 0.0), ([3e38, -3e38, 0.0], 1, np.inf),
               ([3e38, -3e38, 0.0], 0, 0.0), ([ninf, 5.0, ninf], 0, np.inf)]
  for logits, tgt, want in inf_cases:
    st = metrics.CrossEntropyLoss().evaluate_example({'y': jnp.array(tgt, jnp.int32)}, jnp.array(logits, jnp.float32))
    got = float(st.accum)
    replayed += 1
    ctx.case(key=('xent-inf', repr(logits), tgt), nontrivial=True)
    okv = (np.isposinf(got) if np.isposinf(want) else (np.isfinite(got) and abs(got - want) <= 1e-5 * (1 + abs(want))))
    if not okv or float(st.weight) != 1.0:
      ctx.violation('xent-value:CrossEntropyLoss:inf', f'CrossEntropyLoss on logits {logits} target {tgt}: loss {got}, -log softmax gives {want}', replay={'logits': [str(x) for x in logits], 'target': tgt})
    for mm, nm in ((metrics.SequenceTokenCrossEntropyLoss(masked_target_values=(99,)), 'SequenceTokenCrossEntropyLoss'), (metrics.SequenceCrossEntropyLoss(masked_target_values=(99,)), 'SequenceCrossEntropyLoss'),
                   (metrics.SequenceTokenCrossEntropyLoss(masked_target_values=(99,), per_position=True), 'SequenceTokenCrossEntropyLoss(per_position)')):
      st2 = mm.evaluate_example({'y': jnp.array([tgt, 2], jnp.int32)}, jnp.array([logits, [0.0, 0.0, 9.0]], jnp.float32))
      g2 = np.asarray(st2.accum, np.float64).reshape(-1)
      replayed += 1
      if np.isposinf(want) != bool(np.isposinf(g2[0] if g2.size > 1 else g2.sum())) or np.any(np.isnan(g2)):
        ctx.violation(f'xent-value:{nm}:inf', f'{nm} on logits {logits} target {tgt} (first token): accum {g2.tolist()}, the token loss is {want}', replay={'logits': [str(x) for x in logits], 'target': tgt})
  # a MASKED position contributes nothing, whatever its loss: here the masked (padding) target's own class has a -inf
  # logit, so its token loss is +inf; the sequence statistics are those of the other positions
  pred_m = np.array([[ninf, 1.0, 2.0], [ninf, 0.5, 0.0], [ninf, 0.0, 3.0]], np.float32)
  tgt_m = np.array([1, 0, 2], np.int32)
  lp_m = log_softmax64(pred_m)
  want_tok = [-lp_m[0, 1], -lp_m[2, 2]]
  for mm, nm, want_acc, want_w in ((metrics.SequenceTokenCrossEntropyLoss(masked_target_values=(0,)), 'SequenceTokenCrossEntropyLoss', sum(want_tok), 2.0),
                                   (metrics.SequenceCrossEntropyLoss(masked_target_values=(0,)), 'SequenceCrossEntropyLoss', sum(want_tok), 1.0)):
    stm = mm.evaluate_example({'y': jnp.array(tgt_m)}, jnp.array(pred_m))
    replayed += 1
    ctx.case(key=('xent-masked-inf', nm), nontrivial=True)
    if not (np.isfinite(float(stm.accum)) and abs(float(stm.accum) - want_acc) <= 1e-5 * (1 + want_acc) and float(stm.weight) == want_w):
      ctx.violation(f'xent-value:{nm}:masked-inf', f'{nm} with a masked position whose own class has a -inf logit: accum {float(stm.accum)} weight {float(stm.weight)}, '
                    f'the unmasked positions give {want_acc} / {want_w}', replay={'target': tgt_m.tolist(), 'masked': [0]})
  # per-domain statistics of a base metric whose statistic is not a scalar: shape (domains,) + base shape, the example's
  # domain holds the base statistic, every other domain zero
  for base_name, base, key0 in (('ConfusionMatrix', metrics.ConfusionMatrix(num_classes=C), 'confusion'), ('SequenceTokenAccuracy(per_position)', metrics.SequenceTokenAccuracy(masked_target_values=(0,), per_position=True), 'tok_acc_pp')):
    for D in (2, 3, C):
      pd = metrics.PerDomainMetric(base, num_domains=D)
      src = [it for key_, its in groups.items() if key_[0] == key0 for it in its][:: 7][:40]
      for idx, it in enumerate(src):
        c = it['c']
        d = idx % D
        exd = {'y': jnp.array(c['target'], jnp.int32), 'domain_id': jnp.array(d, jnp.int32)}
        pred = jnp.array(c.get('scores', c.get('preds')), jnp.float32)
        try:
          st_b = base.evaluate_example({'y': exd['y']}, pred)
          st_d = pd.evaluate_example(exd, pred)
        except Exception as ex_:  # pylint: disable=broad-except
          ctx.violation(f'per-domain:{base_name}:exception', f'{type(ex_).__name__}: {str(ex_)[:150]} for PerDomainMetric({base_name}, {D})', replay={'case': c})
          break
        replayed += 1
        bad_f = None
        for f in ('accum', 'weight'):
          if not hasattr(st_b, f):
            continue
          b_ = np.asarray(getattr(st_b, f), np.float64)
          g_ = np.asarray(getattr(st_d, f), np.float64)
          want_ = np.zeros((D,) + b_.shape)
          want_[d] = b_
          if g_.shape != want_.shape or not np.array_equal(g_, want_):
            bad_f = (f, g_.shape, want_.shape)
        if bad_f:
          ctx.violation(f'per-domain:{base_name}', f'PerDomainMetric({base_name}, num_domains={D}) on an example of domain {d}: {bad_f[0]} has shape {bad_f[1]}, expected {bad_f[2]} with the base statistic '
                        f'in slot {d} and zeros elsewhere; target={c["target"]}', replay={'case': c, 'domain': d, 'D': D})
          break
  ctx.trace_ok(replayed)
  ctx.exhaustive = True
  ctx.leg('R', table_cases=len(cases), configurations=len(groups), replays=replayed)
  ctx.sample({'case': cases[17]})
  ctx.sample({'case': rq.json[4321 % len(rq.json)]})
