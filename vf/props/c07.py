"""C07 - aggregation is the exact weighted mean and never harms its inputs.

Leg M: TLC on Aggregation.tla (one-pass fold with a donated accumulator and a buffer table; all input orders, list and
       one-pass inputs) against the declarative sum(w p)/sum(w); TLC on Clip.tla (exact rational clipping of
       Pythagorean vectors); deviations as sensitivity controls.
Leg R: every emitted case is replayed into tree_sum, tree_mean and mean_aggregator().apply with NumPy and JAX leaves,
       list / generator / map inputs and all input orders (<= 3!), checking the value against TLC's rational, the
       liveness / value / aliasing of every caller array and the one-pass discipline; Clip cases into
       tree_clip_by_global_norm.
Leg T: random larger trees (shapes, dtypes, weights): hull, zero-weight, order independence as PureHistory facts.
"""
import itertools

import numpy as np

from vf import intern
from vf import traces as vtraces
from vf.core import Machinery

INVS = ['ExactMean', 'ZeroTotalGivesZeros', 'InHull', 'CallerBuffersAlive', 'ResultNotAliased', 'OnePass']
TOG = dict(CopyFirst=True, WeightFresh=True, ZeroGuard=True, DivideByWeight=True, PeekFirst=False)
BASES = [np.array([1., 2.], np.float32), np.array([[1., -1.], [3., 0.]], np.float32)]


def build_tree(p, kind):
  import jax.numpy as jnp  # pylint: disable=g-import-not-at-top
  mk = (lambda a: jnp.array(a)) if kind == 'jax' else (lambda a: np.array(a))
  return {'a': mk(BASES[0] * p[0]), 'b': {'c': mk(BASES[1] * p[1 % len(p)])}}


def expected_tree(num, den):
  return {'a': BASES[0].astype(np.float64) * num[0] / den, 'b': {'c': BASES[1].astype(np.float64) * num[1 % len(num)] / den}}


class OnePassSource:
  """An iterable that can be iterated once; counts items handed out."""

  def __init__(self, items):
    self.items = items
    self.handed = 0
    self.iters = 0

  def __iter__(self):
    self.iters += 1
    if self.iters > 1:
      raise RuntimeError('one-pass source iterated twice')
    for x in self.items:
      self.handed += 1
      yield x


def check_inputs_alive(trees, snapshots):
  """Returns '' or a description of the first harmed caller array."""
  import jax  # pylint: disable=g-import-not-at-top
  for ti, (t, snap) in enumerate(zip(trees, snapshots)):
    for li, (leaf, old) in enumerate(zip(jax.tree_util.tree_leaves(t), snap)):
      if hasattr(leaf, 'is_deleted') and leaf.is_deleted():
        return f'input {ti} leaf {li} was deleted (donated)'
      if not np.array_equal(np.asarray(leaf), old):
        return f'input {ti} leaf {li} changed value'
  return ''


def ptrs(tree):
  import jax  # pylint: disable=g-import-not-at-top
  out = set()
  for leaf in jax.tree_util.tree_leaves(tree):
    if hasattr(leaf, 'unsafe_buffer_pointer'):
      try:
        out.add(leaf.unsafe_buffer_pointer())
      except Exception:  # pylint: disable=broad-except
        pass
  return out


def run(ctx):
  import jax  # pylint: disable=g-import-not-at-top
  import jax.numpy as jnp  # pylint: disable=g-import-not-at-top
  import fedjax  # pylint: disable=g-import-not-at-top
  from fedjax.core import tree_util  # pylint: disable=g-import-not-at-top
  from vf.tlc import Raw  # pylint: disable=g-import-not-at-top
  big = ctx.thorough
  rng = ctx.rng
  ctx.rule = ('case = (function, multiset of (tree, weight), listing order, leaf kind, container kind); non-trivial = '
              'at least two inputs with different trees and a positive total weight; distinct by all of these')
  ctx.assumptions += ['values: exact comparison with the TLC rational when the denominator is a power of two, rtol 1e-6 '
                      'otherwise (float32 rounding)', 'aliasing is observable only for JAX inputs (unsafe_buffer_pointer)']
  # ---- leg M
  runs = [('A2', dict(Vals=Raw('<- ValsA'), MaxW=2, MaxK=2, Leaves=2, AllOrders=True)),
          ('B3', dict(Vals=Raw('<- ValsB'), MaxW=3 if big else 2, MaxK=3, Leaves=2, AllOrders=True))]
  if big:
    runs.append(('A3', dict(Vals=Raw('<- ValsA'), MaxW=2, MaxK=3, Leaves=2, AllOrders=True)))
    runs.append(('C2', dict(Vals=Raw('<- ValsC'), MaxW=3, MaxK=2, Leaves=2, AllOrders=True)))
  cases = []
  for nm, c in runs:
    r = ctx.model_check('Aggregation', name=f'Aggregation_M_{nm}', constants=dict(c, **TOG), invariants=INVS + ['Emit'], workers=1)
    cases += r.json
  ctl = {'CopyFirst': (False, ['ResultNotAliased', 'CallerBuffersAlive']), 'WeightFresh': (False, ['CallerBuffersAlive', 'ResultNotAliased']),
         'ZeroGuard': (False, ['ZeroTotalGivesZeros']), 'DivideByWeight': (False, ['ExactMean', 'InHull']), 'PeekFirst': (True, ['ExactMean', 'InHull'])}
  for tog, (val, invs) in ctl.items():
    c = dict(Vals=Raw('<- ValsA'), MaxW=2, MaxK=2, Leaves=2, AllOrders=True, **TOG)
    c[tog] = val
    ctx.model_check('Aggregation', expect=invs, name=f'Aggregation_ctl_{tog}', constants=c, invariants=INVS, coverage=False)
  rc = ctx.model_check('Clip', name='Clip_M', constants=dict(MinWithOne=True), invariants=['NormAtMost', 'SameDirection', 'IdentityBelow', 'ExactlyBoundAbove', 'Emit'], workers=1)
  ctx.model_check('Clip', expect=['IdentityBelow', 'NormAtMost'], name='Clip_ctl', constants=dict(MinWithOne=False),
                  invariants=['NormAtMost', 'SameDirection', 'IdentityBelow', 'ExactlyBoundAbove'], coverage=False)
  ctx.require_actions(['Step', 'Finish', 'Scale', 'Apply'])

  # ---- leg R
  agg = fedjax.aggregators.mean_aggregator()
  replayed = 0
  stride = 1 if big else 3
  for ci, c in enumerate(cases):
    if ci % stride:
      continue
    ins = c['inputs']
    k = len(ins)
    orders = list(itertools.permutations(range(k))) if (big or ci % 5 == 0) else [tuple(range(k)), tuple(reversed(range(k)))]
    for oi, order in enumerate(dict.fromkeys(orders)):
      kind = 'jax' if (ci + oi) % 2 == 0 else 'np'
      container = ('list', 'gen', 'map')[(ci + oi) % 3]
      trees = [build_tree(ins[i]['p'], kind) for i in order]
      weights = [ins[i]['w'] for i in order]
      snaps = [[np.array(x) for x in jax.tree_util.tree_leaves(t)] for t in trees]
      in_ptrs = set().union(*[ptrs(t) for t in trees]) if kind == 'jax' else set()
      fn = c['mode']
      if fn == 'mean' and (ci + oi) % 2:
        fn = 'aggregator'
      # weights as callers have them: Python ints / floats, NumPy scalars, 0-d NumPy arrays (what jax.device_get returns),
      # JAX scalars (e.g. an example count computed on device)
      wkind = ('int', 'float', 'np.float32', 'np.int64', 'ndarray0', 'jax')[(ci + 2 * oi) % 6]
      conv = {'int': lambda w: w, 'float': float, 'np.float32': np.float32, 'np.int64': np.int64, 'ndarray0': lambda w: np.array(w, np.float32),
              'jax': lambda w: jnp.asarray(w, jnp.float32)}[wkind]
      wobjs = [conv(w) for w in weights]
      if fn == 'sum':
        items = list(trees)
      elif fn == 'mean':
        items = list(zip(trees, wobjs))
      else:
        # client ids are labels only: distinct ids, or the same id on several triples (a client sending two updates, sampling
        # with replacement) - every triple counts
        idf = (lambda i: b'c%d' % i, lambda i: b'same', lambda i: (1, 1.0, True)[i % 3], lambda i: b'c%d' % (i // 2))[(ci + oi) % 4]
        items = [(idf(i), t, wo) for i, (t, wo) in enumerate(zip(trees, wobjs))]
      src = OnePassSource(items)
      arg = items if container == 'list' else (src if container == 'gen' else map(lambda x: x, src))
      cfg = dict(fn=fn, inputs=[ins[i] for i in order], leaves=kind, container=container, weight_type=wkind)
      nontrivial = k >= 2 and len({tuple(i['p']) for i in ins}) > 1 and c['den'] > 0
      ctx.case(key=(fn, repr(cfg['inputs']), kind, container), nontrivial=nontrivial)
      replayed += 1
      try:
        if fn == 'sum':
          out = tree_util.tree_sum(arg)
        elif fn == 'mean':
          out = tree_util.tree_mean(arg)
        else:
          out, _ = agg.apply(arg, agg.init())
      except Exception as ex:  # pylint: disable=broad-except
        ctx.violation(f'replay:{fn}:exception:{type(ex).__name__}', f'{type(ex).__name__}: {ex} for {cfg}', replay={'cfg': cfg})
        continue
      exp = expected_tree(c['num'], c['den'])
      pow2 = c['den'] in (1, 2, 4, 8)
      lv_out, lv_exp = jax.tree_util.tree_leaves(out), jax.tree_util.tree_leaves(exp)
      bad_val = any(np.any(np.isnan(np.asarray(a))) for a in lv_out)
      if bad_val:
        ctx.violation(f'replay:{fn}:nan', f'NaN in the result for {cfg}', replay={'cfg': cfg})
        continue
      ok = len(lv_out) == len(lv_exp) and all(
          (np.array_equal(np.asarray(a, np.float64), b) if pow2 else np.allclose(np.asarray(a, np.float64), b, rtol=1e-6, atol=1e-7))
          for a, b in zip(lv_out, lv_exp))
      if not ok:
        ctx.violation(f'replay:{fn}:value', f'result differs from sum(w p)/sum(w) = {c["num"]}/{c["den"]} (per abstract leaf) for {cfg}: '
                      f'got {[np.asarray(a).tolist() for a in lv_out]}', replay={'cfg': cfg, 'expected': [b.tolist() for b in lv_exp]})
        continue
      harmed = check_inputs_alive(trees, snaps)
      if not harmed and fn != 'sum':
        try:
          if any(float(np.asarray(o)) != float(w) for o, w in zip(wobjs, weights)):
            harmed = f'the caller\'s weights changed: {[float(np.asarray(o)) for o in wobjs]} (were {weights})'
        except RuntimeError:
          harmed = 'a weight array was deleted'
      if harmed:
        ctx.violation(f'replay:{fn}:inputs-harmed', f'{harmed} after the call for {cfg}', replay={'cfg': cfg})
        continue
      if kind == 'jax' and (ptrs(out) & in_ptrs):
        ctx.violation(f'replay:{fn}:aliased', f'a result leaf shares its buffer with a caller array for {cfg}', replay={'cfg': cfg})
        continue
      if container != 'list' and (src.handed != k or src.iters != 1):
        ctx.violation(f'replay:{fn}:onepass', f'one-pass input: {src.handed} of {k} items pulled in {src.iters} iterations for {cfg}', replay={'cfg': cfg})
  ctx.trace_ok(replayed)
  ctx.leg('R', behaviours=len(cases), replays=replayed)
  ctx.sample({'leg': 'R', 'case': cases[len(cases) // 2]})
  # Clip replay
  clip_n = 0
  for cj, c in enumerate(rc.json):
    # clipping commutes with positive scaling of tree and bound together (exactly for powers of two): every third case is
    # replayed on a tiny tree (2^-30), every third on a large one (2^20)
    sc = (1.0, 2.0 ** -30, 2.0 ** 20)[cj % 3]
    v = [x * sc for x in c['v']]
    bound = c['cn'] / c['cd'] * sc
    c = dict(c, num=[x * sc for x in c['num']])
    for kind in ('jax', 'np'):
      mk = jnp.array if kind == 'jax' else np.array
      # split the vector over two leaves of different shape
      tree = {'x': mk(np.array(v[:1], np.float32)), 'y': mk(np.array(v[1:], np.float32).reshape(-1))}
      if len(v) == 1:
        tree = {'x': mk(np.array(v, np.float32))}
      snap = [np.array(x) for x in jax.tree_util.tree_leaves(tree)]
      out = tree_util.tree_clip_by_global_norm(tree, bound)
      flat = np.concatenate([np.asarray(x, np.float64).reshape(-1) for x in jax.tree_util.tree_leaves(out)])
      exp = np.array(c['num'], np.float64) / c['den']
      clip_n += 1
      ctx.case(key=('clip', tuple(v), c['cn'], c['cd'], kind), nontrivial=sum(x * x for x in v) * c['cd'] ** 2 > c['cn'] ** 2)
      cfg = dict(fn='tree_clip_by_global_norm', v=v, max_norm=bound, leaves=kind)
      if np.any(np.isnan(flat)) or not np.allclose(flat, exp, rtol=2e-6, atol=1e-7 * sc):
        ctx.violation('replay:clip:value', f'clipped tree {flat.tolist()} differs from the exact {exp.tolist()} for {cfg}', replay={'cfg': cfg})
      elif np.linalg.norm(flat) > bound * (1 + 1e-5):
        ctx.violation('replay:clip:norm', f'norm {np.linalg.norm(flat)} exceeds the bound for {cfg}', replay={'cfg': cfg})
      elif check_inputs_alive([tree], [snap]):
        ctx.violation('replay:clip:inputs-harmed', f'{check_inputs_alive([tree], [snap])} for {cfg}', replay={'cfg': cfg})
  # the bound 0 (nothing may pass) and the zero tree (norm 0, already inside every bound): zeros, never NaN
  for (vals, bound) in (([0.0, 0.0, 0.0], 0.0), ([3.0, 4.0], 0.0), ([0.0, 0.0], 1.0), ([0.0], 1e-30), ([1e-20, 0.0], 0.0)):
    for kind in ('jax', 'np'):
      mk = jnp.array if kind == 'jax' else np.array
      tree = {'x': mk(np.array(vals[:1], np.float32)), 'y': mk(np.array(vals[1:], np.float32))}
      out = tree_util.tree_clip_by_global_norm(tree, bound)
      flat = np.concatenate([np.asarray(x, np.float64).reshape(-1) for x in jax.tree_util.tree_leaves(out)])
      clip_n += 1
      cfg = dict(fn='tree_clip_by_global_norm', v=vals, max_norm=bound, leaves=kind)
      ctx.case(key=('clip-zero', repr(vals), bound, kind), nontrivial=True)
      if np.any(np.isnan(flat)) or np.any(flat != 0):
        ctx.violation('clip-zero-norm-zero-bound-NaN' if (bound == 0 and not any(vals)) else 'replay:clip:zero', f'clipped tree {flat.tolist()} instead of zeros for {cfg}', replay={'cfg': cfg})
  # complex leaves: |3+4j| = 5; the global norm uses the modulus of every entry
  for (vals, bound) in (([3 + 4j, 0j], 1.0), ([3 + 4j, 0j], 10.0), ([0.6 + 0.8j, 0j, 0j], 0.5), ([1j, 1 + 0j, 1j, -1 + 0j], 1.0), ([3 + 4j, 12 + 0j], 6.5)):
    for kind in ('jax', 'np'):
      mk = jnp.array if kind == 'jax' else np.array
      tree = {'z': mk(np.array(vals, np.complex64)), 'r': mk(np.zeros((2,), np.float32))}
      snap = [np.array(x) for x in jax.tree_util.tree_leaves(tree)]
      out = tree_util.tree_clip_by_global_norm(tree, bound)
      z = np.asarray(out['z'], np.complex128)
      nrm = float(np.sqrt(np.sum(np.abs(np.array(vals)) ** 2)))
      exp = np.array(vals, np.complex128) * min(1.0, bound / nrm)
      clip_n += 1
      cfg = dict(fn='tree_clip_by_global_norm', complex_leaf=[str(v_) for v_ in vals], max_norm=bound, leaves=kind)
      ctx.case(key=('clip-complex', repr(vals), bound, kind), nontrivial=nrm > bound)
      if np.any(np.isnan(z)) or not np.allclose(z, exp, rtol=1e-5, atol=1e-6) or np.any(np.asarray(out['r']) != 0):
        ctx.violation('replay:clip:complex', f'clipped complex leaf {z.tolist()} differs from the exact {exp.tolist()} (norm {nrm}) for {cfg}', replay={'cfg': cfg})
      elif abs(float(np.real(tree_util.tree_l2_norm(tree))) - nrm) > 1e-5 * nrm:
        ctx.violation('replay:clip:complex-norm', f'tree_l2_norm = {tree_util.tree_l2_norm(tree)} but the norm is {nrm} for {cfg}', replay={'cfg': cfg})
      elif check_inputs_alive([tree], [snap]):
        ctx.violation('replay:clip:inputs-harmed', f'{check_inputs_alive([tree], [snap])} for {cfg}', replay={'cfg': cfg})
  ctx.trace_ok(clip_n)
  ctx.leg('R', clip_cases=clip_n)

  # example counts carried in narrow integer dtypes (what a size array of dtype int16 / uint8 yields): each weight fits its
  # dtype, the TOTAL does not; the mean is still sum(w p) / sum(w)
  from fedjax.aggregators import aggregator as agg_mod  # pylint: disable=g-import-not-at-top
  narrow_n = 0
  for dt_w, ws in ((np.int16, [20000, 25000, 15000]), (np.uint8, [200, 60, 40]), (np.int8, [100, 100, 27]), (np.uint16, [40000, 30000]),
                   (np.int32, [2**30, 2**30, 2**30]), (jnp.int16, [30000, 30000]), (jnp.uint8, [255, 255, 2])):
    vals = [np.array([1.0 + i, -2.0 * i, 0.5], np.float32) for i in range(len(ws))]
    exact = sum(float(w) * v.astype(np.float64) for w, v in zip(ws, vals)) / float(sum(ws))
    for via in ('tree_mean', 'mean_aggregator'):
      weights = [dt_w(w) for w in ws]
      trees = [{'p': jnp.asarray(v)} for v in vals]
      cfg = dict(fn=via, weight_dtype=np.dtype(dt_w).name if dt_w in (np.int16, np.uint8, np.int8, np.uint16, np.int32) else str(dt_w.dtype), weights=ws)
      narrow_n += 1
      ctx.case(key=('narrow-weights', cfg['weight_dtype'], via), nontrivial=True)
      try:
        if via == 'tree_mean':
          got = tree_util.tree_mean(zip(trees, weights))
        else:
          a_ = agg_mod.mean_aggregator()
          got, _ = a_.apply([(b'c%d' % i, t, w) for i, (t, w) in enumerate(zip(trees, weights))], a_.init())
        gotv = np.asarray(got['p'], np.float64)
      except Exception as ex:  # pylint: disable=broad-except
        ctx.violation(f'replay:mean:narrow-weights:{type(ex).__name__}', f'{type(ex).__name__}: {str(ex)[:160]} for {cfg}', replay={'cfg': cfg})
        continue
      if not np.allclose(gotv, exact, rtol=1e-5, atol=1e-6):
        ctx.violation('replay:mean:narrow-weights', f'{via} gives {gotv.tolist()}, the weighted mean is {exact.tolist()} for {cfg}', replay={'cfg': cfg})
  ctx.trace_ok(narrow_n)

  # ---- leg T: random larger trees, facts judged by TLC (PureHistory)
  ev = []
  tol = intern.Tolerant(rtol=2e-5, atol=1e-5)
  for ti in range(400 if big else 80):
    k = rng.randint(1, 6)
    nleaves = rng.randint(1, 3)
    shapes = [tuple(rng.randint(1, 4) for _ in range(rng.randint(0, 3))) for _ in range(nleaves)]
    dt = rng.choice([np.float32, np.float32, np.float16])
    nprng = np.random.RandomState(rng.randint(0, 10**6))
    trees = [{f'l{j}': (nprng.randint(-8, 9, size=s) / 4).astype(dt) for j, s in enumerate(shapes)} for _ in range(k)]
    mixed = ti % 5 == 3
    if mixed:
      # clients whose leaves have different dtypes (integer, half, single precision), in any order: the sum is taken in the
      # promoted dtype
      dts = [rng.choice([np.int32, np.float16, np.float32]) for _ in range(k)]
      trees = [{f'l{j}': (nprng.randint(-8, 9, size=s) if dts[i] == np.int32 else nprng.randint(-8, 9, size=s) / 4).astype(dts[i])
                for j, s in enumerate(shapes)} for i in range(k)]
    weights = [rng.choice([0, 0, 1, 2, 3, 5, 0.5, 7.25]) for _ in range(k)]
    if ti % 7 == 0:
      weights = [0] * k
    tot = sum(weights)
    keyname = f'mean#{ti}'
    outs = []
    for order in ([list(range(k)), list(reversed(range(k))), sorted(range(k), key=lambda i: (i * 7) % max(k, 1))]):
      jt = [jax.tree_util.tree_map(jnp.array, trees[i]) for i in order]
      out = tree_util.tree_mean((t, weights[i]) for t, i in zip(jt, order))
      outs.append(out)
      ev.append({'e': 'Call', 'key': keyname, 'out': tol(out)})
      harmed = check_inputs_alive(jt, [[np.array(x) for x in jax.tree_util.tree_leaves(trees[i])] for i in order])
      ev.append({'e': 'Fact', 'name': 'InputsAliveAndUnchanged', 'about': f'{keyname} {harmed}', 'holds': not harmed})
    o = outs[0]
    lv = [np.asarray(x, np.float64) for x in jax.tree_util.tree_leaves(o)]
    ev.append({'e': 'Fact', 'name': 'Finite', 'about': keyname, 'holds': all(np.all(np.isfinite(x)) for x in lv)})
    if tot > 0:
      pos = [i for i in range(k) if weights[i] > 0]
      for j, s in enumerate(shapes):
        stack = np.stack([trees[i][f'l{j}'].astype(np.float64) for i in pos])
        exact = sum(weights[i] * trees[i][f'l{j}'].astype(np.float64) for i in range(k)) / tot
        for oi, oo in enumerate(outs):
          got = np.asarray(jax.tree_util.tree_leaves(oo)[j], np.float64)
          ev.append({'e': 'Fact', 'name': 'ExactWeightedMean', 'about': f'{keyname} leaf {j} order {oi} weights {weights} dtypes {[str(trees[i][f"l{j}"].dtype) for i in range(k)]}',
                     'holds': bool(np.allclose(got, exact, rtol=2e-3, atol=2e-3))})
        eps = 1e-2 if dt == np.float16 else 1e-5
        inside = np.all(lv[j] >= stack.min(0) - eps) and np.all(lv[j] <= stack.max(0) + eps)
        ev.append({'e': 'Fact', 'name': 'InHull', 'about': f'{keyname} leaf {j} weights {weights}', 'holds': bool(inside)})
    else:
      ev.append({'e': 'Fact', 'name': 'ZeroTotalGivesZeros', 'about': f'{keyname} weights {weights}', 'holds': all(np.all(x == 0) for x in lv)})
    ctx.case(key=('T', ti), nontrivial=k >= 2 and tot > 0)
  vs, _ = vtraces.validate_batch(ctx, 'PureHistory', [{'events': ev}], {}, 'PH')
  v = vs[0]
  if not v.ok:
    ctx.violation(f'facts:{v.inv or "rejected"}:{(v.state or "")[:60]}', f'relational facts about tree_mean violated: {v.inv} at event #{v.at} {v.event}; recorded {v.state}',
                  replay={'events': ev[max(0, (v.at or 1) - 4):(v.at or 1) + 1]})
  ctx.leg('T', facts=len(ev))
  ctx.sample({'leg': 'T', 'events': ev[:4]})
