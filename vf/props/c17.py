"""C17 - algorithm-specific invariants hold along every training history.

Leg M: TLC on AlgHistory.tla (sliding window queue, participants-only state table, own-clusters-only updates) for all
       cohorts / domain counts / assignments of small instances; three deviations as sensitivity controls; Clip.tla
       (exact clipping) is model-checked by C07 and reused here for MimeLite.
Leg T: 4-8 round histories of the real agnostic_fed_avg, apfl and hyp_cluster on the same cohorts (rounds where a
       domain or a cluster receives no example included); every round is one event carrying the real window, client
       state table, cluster assignment and changed clusters; validated by TLC (AlgHistoryTrace).  MimeLite clipping and
       ignore_grads_haiku as PureHistory facts.
"""
import numpy as np

from vf import algs
from vf import intern
from vf import island
from vf import traces as vtraces
from vf.core import Machinery
from vf.props import c10

INVS = ['WindowIsRecent', 'StoredOnlyParticipants']
TOG = dict(SlideOldest=True, StoreParticipantsOnly=True, SkipEmptyClusters=True, EvalReadOnly=True)


def history(ctx, fedjax, rng, nrounds, window, nclusters, allow_empty_domain, backend=None, init_weights=None):
  """Runs the three real algorithms on one random population and cohort sequence; returns the trace (or a finding)."""
  import jax  # pylint: disable=g-import-not-at-top
  ncl = rng.randint(3, 5)
  sizes = [rng.choice([0, 1, 2, 3, 4]) for _ in range(ncl)]
  if all(s == 0 for s in sizes):
    sizes[0] = 2
  nd = 2
  data = [[[rng.randint(-4, 4), rng.randint(-4, 4)] for _ in range(s)] for s in sizes]
  # domains: client-specific so that some cohorts lack a domain entirely
  dom = [[(ci + j) % nd if ci % 2 else ci % nd for j in range(s)] for ci, s in enumerate(sizes)]
  if not allow_empty_domain:
    dom = [[j % nd for j in range(s)] for s in sizes]
  h = {'bs': 2, 'epochs': 1, 'steps': None, 'drop': False, 'seed': rng.randint(0, 99), 'skip': False}
  R = island.R
  inst = {'data': data, 'init': [R(0), R(1)], 'copt': island.opt_spec('sgd', 0.25), 'sopt': island.opt_spec('mom', 0.5, 0.5)}
  case = {'inst': inst, 'h': h}
  dss = island.datasets(fedjax, data)
  dss = [fedjax.ClientDataset(dict(d.raw_examples, domain_id=np.array(dom[ci], np.int32).reshape(len(d)))) for ci, d in enumerate(dss)]
  ids = island.client_ids(ncl)
  offs = [0.0, 2.0, -2.0][:nclusters]
  from fedjax.core import for_each_client as fec_mod  # pylint: disable=g-import-not-at-top
  with fec_mod.for_each_client_backend(backend):      # the backend is bound when the algorithms are built
    dlr = rng.choice([0.125, 0.5])
    init_style = ('arrays', 'lists', 'default')[(nrounds + ncl + window) % 3]
    try:
      agn, agn_init, _ = algs.build(fedjax, 'agnostic_fed_avg', case, window=window, domain_lr=dlr, init_window=[1.0, 1.0], init_style=init_style,
                                    domain_weights=init_weights or [0.5, 0.5])
    except Exception as ex:  # pylint: disable=broad-except
      ctx.violation('agnostic-cannot-be-built-with-list-weights-or-default-window', f'agnostic_federated_averaging(init_domain_weights=[0.5, 0.5] as {init_style}) raises '
                    f'{type(ex).__name__}: {str(ex)[:160]}', replay={'init_style': init_style, 'window': window})
      agn, agn_init, _ = algs.build(fedjax, 'agnostic_fed_avg', case, window=window, domain_lr=dlr, init_window=[1.0, 1.0], domain_weights=init_weights or [0.5, 0.5])
    apfl, apfl_init, _ = algs.build(fedjax, 'apfl', case, coef=rng.choice([0.0, 0.5, 1.0]), copt=fedjax.optimizers.sgd(rng.choice([0.25, 1.0, 4.0])))
    # (a server optimizer with a step counter: an applied update is visible in the state even when the mean delta is zero)
    hyp_reg = 0.5 if allow_empty_domain else 0.0       # every second history: an L2 regulariser, part of "average loss"
    hyp, hyp_init, _ = algs.build(fedjax, 'hyp_cluster', case, clusters=nclusters, offsets=offs, sopt=fedjax.optimizers.adam(0.125), reg=hyp_reg)
  p0 = island.params_tree(inst['init'])
  s_agn, s_apfl, s_hyp = agn_init(p0), apfl_init(p0), hyp_init(p0)
  events = []
  notes = []
  # APFL's evaluation function on the same quadratic problem (metric: mean of 1/2 |w - x|^2)
  from fedjax.algorithms import apfl as apfl_mod  # pylint: disable=g-import-not-at-top
  import jax.numpy as jnp  # pylint: disable=g-import-not-at-top

  class SqErr(fedjax.metrics.Metric):

    def zero(self):
      return fedjax.metrics.MeanStat.new(0., 0.)

    def evaluate_example(self, example, prediction):
      return fedjax.metrics.MeanStat.new(0.5 * jnp.sum(prediction ** 2), 1.)

  eval_model = fedjax.Model(init=lambda k: p0, apply_for_train=lambda p, b, k: island._flat(p)[None, :] - b['x'],
                            apply_for_eval=lambda p, b: island._flat(p)[None, :] - b['x'], train_loss=lambda b, out: 0.5 * jnp.sum(out ** 2, axis=1),
                            eval_metrics={'sq': SqErr()})
  apfl_eval = apfl_mod.eval_adaptive_personalized_federated_learning(eval_model, fedjax.PaddedBatchHParams(batch_size=3))
  for r in range(nrounds):
    if r % 2 == 1 or r == 0:
      # evaluation between rounds, on clients that may never have trained: reads the table, changes nothing
      who = sorted(rng.sample(range(1, ncl + 1), rng.randint(1, ncl)))
      res = list(apfl_eval(s_apfl, [(ids[c - 1], dss[c - 1]) for c in who]))
      fin = all(np.all(np.isfinite(np.asarray(v))) for _, m in res for v in jax.tree_util.tree_leaves(m))
      events.append({'e': 'Eval', 'who': who, 'stored': sorted(ids.index(cid) + 1 for cid in s_apfl.client_states),
                     'finite': bool(fin and len(res) == len(who))})
    k = rng.randint(1, ncl)
    cohort = sorted(rng.sample(range(1, ncl + 1), k))
    if sum(sizes[c - 1] for c in cohort) == 0:
      cohort = sorted(set(cohort) | {next(i + 1 for i, s in enumerate(sizes) if s > 0)})
    keys = jax.random.split(jax.random.PRNGKey(1000 + r), ncl)
    clients = [(ids[c - 1], dss[c - 1], keys[c - 1]) for c in cohort]
    counts = [sum(1 for c in cohort for d in dom[c - 1] if d == dd) for dd in range(nd)]
    busy = [c for c in cohort if sizes[c - 1] > 0]
    ev = {'e': 'Round', 'cohort': cohort, 'counts': counts, 'busy': busy}
    # ---- agnostic
    s_agn, _ = agn.apply(s_agn, clients)
    w = np.asarray(s_agn.domain_weights, np.float64)
    win = [[int(round(float(x))) for x in np.asarray(v)] for v in s_agn.domain_window]
    win_exact = all(np.all(np.asarray(v) == np.round(np.asarray(v))) and np.all(np.isfinite(np.asarray(v))) for v in s_agn.domain_window)
    ev['window'] = win if win_exact else [[-1] * nd for _ in win]
    ev['weights_simplex'] = bool(np.all(np.isfinite(w)) and np.all(w >= 0) and abs(w.sum() - 1) <= 1e-5
                                 and np.all(np.isfinite(island.params_list(s_agn.params))))
    if not ev['weights_simplex']:
      notes.append(f'round {r + 1}: domain weights {w.tolist()} params {island.params_list(s_agn.params)} window {win} counts {counts}')
    # ---- apfl
    if r % 2 == 1:
      # a branch from the same state with another cohort (a rolled-back / what-if round): its table is the table so far
      # plus that cohort, and it leaves the state it started from alone
      alt = sorted(rng.sample(range(1, ncl + 1), rng.randint(1, ncl)))
      s_alt, _ = apfl.apply(s_apfl, [(ids[c - 1], dss[c - 1], keys[c - 1]) for c in alt])
      have = sorted(ids.index(cid) + 1 for cid in s_apfl.client_states)
      got_alt = sorted(ids.index(cid) + 1 for cid in s_alt.client_states)
      if got_alt != sorted(set(have) | set(alt)):
        notes.append(f'round {r + 1}: a branch with cohort {alt} from a state holding {have} holds {got_alt}')
        ev['coefficients_in_unit_interval'] = False      # (reported through the flag the specification binds)
    s_apfl, _ = apfl.apply(s_apfl, clients)
    ev['stored'] = sorted(ids.index(cid) + 1 for cid in s_apfl.client_states)
    coefs = [np.asarray(x, np.float64) for cs in s_apfl.client_states.values() for x in jax.tree_util.tree_leaves(cs.interpolation_coefficients)]
    ev['coefficients_in_unit_interval'] = ev.get('coefficients_in_unit_interval', True) and bool(all(np.all(np.isfinite(c)) and np.all(c >= 0) and np.all(c <= 1) for c in coefs))
    # ---- hyp_cluster
    before = [c10.fingerprint((p, o)) for p, o in zip(s_hyp.cluster_params, s_hyp.opt_states)]
    cparams = [np.array(island.params_list(p), np.float64) for p in s_hyp.cluster_params]
    s_hyp, diag = hyp.apply(s_hyp, clients)
    after = [c10.fingerprint((p, o)) for p, o in zip(s_hyp.cluster_params, s_hyp.opt_states)]
    assign = [[ids.index(cid) + 1, int(d['cluster_id']) + 1] for cid, d in diag.items()]
    ev['assign'] = sorted(assign)
    ev['changed'] = [kk + 1 for kk in range(nclusters) if before[kk] != after[kk]]
    ok = True
    for c, kk in assign:
      x = np.array(data[c - 1], np.float64).reshape(-1, 2)
      if len(x) == 0:
        continue
      losses = [float(np.mean(0.5 * np.sum((cp[None, :] - x) ** 2, axis=1))) + 0.5 * hyp_reg * float(np.sum(cp ** 2)) for cp in cparams]
      if losses[kk - 1] > min(losses) + 1e-4 * (1 + abs(min(losses))):
        ok = False
        notes.append(f'round {r + 1}: client {c} assigned to cluster {kk} with loss {losses[kk - 1]} but the minimum is {min(losses)}')
    ev['assigned_to_min_loss_cluster'] = ok
    events.append(ev)
  events.append({'e': 'End'})
  return {'events': events, 'meta': {'sizes': sizes, 'domains': dom, 'window': window, 'clusters': nclusters, 'notes': notes[:4],
                                     'allow_empty_domain': allow_empty_domain, 'backend': backend or 'jit'}, 'consts': (nd, window, ncl, nclusters)}


def run(ctx):
  import jax  # pylint: disable=g-import-not-at-top
  import jax.numpy as jnp  # pylint: disable=g-import-not-at-top
  import fedjax  # pylint: disable=g-import-not-at-top
  big = ctx.thorough
  rng = ctx.rng
  ctx.rule = ('case = one multi-round history (population with per-client domains, cohort per round, window size, number of clusters) '
              'run on the real agnostic_fed_avg, apfl and hyp_cluster; plus MimeLite clipping and ignore_grads histories; '
              'non-trivial = a round in which a domain or a cluster receives no example; distinct by the history')
  ctx.assumptions += ['minimal-loss assignment is judged with an independent float64 loss and a 1e-4 relative tie tolerance',
                      'agnostic FedAvg: window / simplex invariants are checked on histories where every domain appears somewhere in '
                      'the window AND, separately, on histories with an absent domain (see known findings)']
  ctx.model_check('AlgHistory', name='AlgHistory_M', constants=dict(NumDomains=2, W=2, NumClients=2 if not big else 3, NumClusters=2, MaxRounds=3, MaxCount=1, **TOG),
                  invariants=INVS, properties=['OnlyOwnClustersUpdated'])
  ctx.model_check('AlgHistory', name='AlgHistory_M_w3', constants=dict(NumDomains=2, W=3, NumClients=2, NumClusters=1, MaxRounds=4, MaxCount=1, **TOG),
                  invariants=INVS, properties=['OnlyOwnClustersUpdated'])
  for tog, inv in (('SlideOldest', 'WindowIsRecent'), ('StoreParticipantsOnly', 'StoredOnlyParticipants'), ('SkipEmptyClusters', 'OnlyOwnClustersUpdated'),
                   ('EvalReadOnly', 'StoredOnlyParticipants')):
    c = dict(NumDomains=2, W=2, NumClients=2, NumClusters=2, MaxRounds=3, MaxCount=1, **TOG)
    c[tog] = False
    ctx.model_check('AlgHistory', expect=inv, name=f'AlgHistory_ctl_{tog}', constants=c, invariants=INVS, properties=['OnlyOwnClustersUpdated'], coverage=False)
  ctx.require_actions(['Round', 'Evaluate'])

  # ---- leg T: real histories
  trs = []
  for i in range(40 if big else 10):
    # every fourth history: domain 0 starts with weight 0 (and keeps it); the single-domain clients of these histories hold
    # domain 0 only, so cohorts made of them have scaling weight 0 throughout - their examples still enter the window
    t = history(ctx, fedjax, rng, rng.randint(4, 8 if big else 6), rng.choice([1, 2, 3]), rng.choice([1, 2, 3]), allow_empty_domain=(i % 2 == 1), backend=(None, 'pmap', 'debug')[i % 3],
                init_weights=[0.0, 1.0] if i % 4 == 3 else None)
    trs.append(t)
    ctx.case(key=('hist', i), nontrivial=any(0 in e.get('counts', [1]) or len(e.get('changed', [])) < t['consts'][3] for e in t['events']))
  groups = {}
  for t in trs:
    groups.setdefault(t['consts'], []).append(t)
  for (nd, w, ncl, nk), ts in sorted(groups.items()):
    consts = dict(NumDomains=nd, W=w, NumClients=ncl, NumClusters=nk, MaxRounds=99, MaxCount=99, **TOG)
    verdicts, _ = vtraces.validate_batch(ctx, 'AlgHistoryTrace', ts, consts, f'T{nd}{w}{ncl}{nk}', strip=('meta', 'consts'))
    for t, v in zip(ts, verdicts):
      if v.ok:
        continue
      ev = v.event
      if v.kind == 'rejected' and ev.get('e') == 'Round':
        flags = [f for f in ('weights_simplex', 'coefficients_in_unit_interval', 'assigned_to_min_loss_cluster') if not ev.get(f, True)]
        if 'weights_simplex' in flags and any(0 in [row[d] for row in win_of(t, v.at)] or True for d in range(nd)) and absent_domain(t, v.at):
          key = 'agnostic-domain-absent-from-window-NaN'
        elif flags:
          key = 'flag:' + ','.join(flags)
        else:
          key = 'round-bookkeeping'
        ctx.violation(key, f'round {v.at}: real states do not follow the specification: {dict((k, x) for k, x in ev.items())}; spec state before the round: {v.state}; '
                      f'{t["meta"]}', replay={'trace': t, 'position': v.at})
      else:
        ctx.violation(f'trace:{v.inv or "rejected"}', f'{v.kind} {v.inv} at event #{v.at} {ev}; {t["meta"]}', replay={'trace': t})
  ctx.leg('T', histories=len(trs), rounds=sum(len(t['events']) - 1 for t in trs))
  ctx.sample({'meta': trs[0]['meta'], 'events': trs[0]['events'][:3]})

  # ---- HypCluster, exactly: every cluster must evolve as FedAvg restricted to the clients assigned to it (TLC oracle)
  hyp_cases = []
  attempts = 0
  # a fixed instance first: clients listed with 1, 3 and 2 batches (a backend that re-orders them by batch count must still
  # credit every delta to its own client's cluster with its own weight); clients 1 and 3 sit at cluster 1, client 2 at cluster 2
  fxh = {'bs': 2, 'epochs': 1, 'steps': None, 'drop': False, 'seed': 5, 'skip': False}
  fxd = [[[0, 0]], [[2, 2], [3, 2], [2, 3], [2, 2], [1, 2]], [[0, 1], [1, 0], [0, 0]]]
  fx = {'data': fxd, 'init': [island.R(0), island.R(0)], 'copt': island.opt_spec('sgd', 0.5), 'sopt': island.opt_spec('sgd', 1), 'mu': island.R(0), 'rounds': 2,
        'cohorts': [[1, 2, 3], [3, 1, 2]]}
  fx['stream'] = island.real_streams(fedjax, island.datasets(fedjax, fxd), island.hparams(fedjax, fxh))
  crafted = [{'inst': fx, 'h': fxh, 'exact': False, 'fixed': True}]
  while len(hyp_cases) < (14 if big else 5) and attempts < 200:
    attempts += 1
    c = crafted.pop() if crafted else island.random_instance(rng, fedjax, leaves=2, dyadic=rng.random() < .6, allow_momentum=False, max_clients=5, rounds=rng.choice([2, 3, 4]))
    if c is None or sum(1 for d in c['inst']['data'] if d) < 2:
      continue
    # (a stateful server optimizer makes "a cluster without examples is left untouched" observable: its momentum must not move it)
    c['inst']['sopt'] = island.opt_spec('sgd', rng.choice([1, 0.5])) if len(hyp_cases) % 2 == 0 else island.opt_spec('mom', rng.choice([1, 0.5]), 0.5)
    nk = rng.choice([2, 3])
    offs = [0.0, 2.0, -2.0][:nk]
    if c.get('fixed'):
      nk, offs = 2, [0.0, 2.0]
    # every for_each_client backend (pmap re-orders the cohort by batch count), with and without an L2 regulariser
    hbackend = 'pmap' if c.get('fixed') else (None, 'pmap', 'debug')[len(hyp_cases) % 3]
    hreg = 0.25 if len(hyp_cases) % 2 else 0.0
    if hreg:
      c['inst']['reg'] = island.R(hreg)
    rec = algs.run_rounds(fedjax, 'hyp_cluster', c, clusters=nk, offsets=offs, backend=hbackend, **({'reg': hreg} if hreg else {}))
    if rec['error']:
      ctx.violation(f'hyp-exact:exception', f'hyp_cluster: {rec["error"]} on {c["inst"]}', replay={'instance': c['inst']})
      continue
    ids = island.client_ids(len(c['inst']['data']))
    assigned = [{ids.index(cid) + 1: int(d['cluster_id']) for cid, d in diag.items()} for diag in rec['diag']]
    insts = []
    for kk in range(nk):
      inst = dict(c['inst'], init=[island.R(island.frac(x) + island.frac(island.R(offs[kk]))) for x in c['inst']['init']],
                  cohorts=[[cl for cl in sorted(a) if a[cl] == kk] for a in assigned])
      insts.append(inst)
    if not all(island.within_island(i) for i in insts):
      # a crafted instance must never be dropped silently (only other assignments than the crafted ones excuse it)
      if c.get('fixed') and all(a == {1: 0, 2: 1, 3: 0} for a in assigned):
        raise Machinery('the fixed HypCluster instance left the exact island: it would be skipped silently')
      continue
    hyp_cases.append((c, nk, rec, insts, assigned))
  flat = [i for (_, _, _, insts, _) in hyp_cases for i in insts]
  if flat:
    exp = island.oracle(ctx, flat, 'hyp', extra_consts={'ApplyOnEmpty': False})
    pos = 0
    for (c, nk, rec, insts, assigned) in hyp_cases:
      for kk in range(nk):
        e = exp[pos]
        pos += 1
        for r in range(c['inst']['rounds']):
          got = island.params_list(rec['states'][r + 1].cluster_params[kk])
          want = [float(island.frac(x)) for x in e['rounds'][r]]
          empty = not insts[kk]['cohorts'][r]
          ctx.case(key=('hyp-exact', repr(insts[kk])), nontrivial=not empty)
          if not np.allclose(got, want, rtol=1e-5, atol=1e-5):
            ctx.violation('hyp-exact:cluster-params', f'round {r + 1}, cluster {kk}: params {got}, FedAvg over its own clients {insts[kk]["cohorts"][r]} gives '
                          f'{[str(island.frac(x)) for x in e["rounds"][r]]} = {want}; assignments {assigned[r]}; instance {c["inst"]}',
                          replay={'instance': c['inst'], 'cluster': kk, 'round': r + 1, 'assigned': assigned})
            break
    ctx.trace_ok(len(flat))
  ctx.leg('T', hyp_exact_cluster_histories=len(flat))

  # ---- MimeLite clipping and ignore_grads: facts judged by TLC
  ev = []
  R = island.R
  for i in range(24 if big else 8):
    c = None
    while c is None:
      c = island.random_instance(rng, fedjax, leaves=2, dyadic=True, allow_momentum=False, max_clients=4, rounds=rng.choice([2, 3]))
    bound = rng.choice([0.125, 0.5, 1.0, 2.0, 64.0]) if i % 4 else 0.0      # 0 is a legal bound: nothing may be aggregated
    slr = rng.choice([1.0, 0.5])
    rec = algs.run_rounds(fedjax, 'mime_lite', c, clip=bound, server_lr=slr)
    about = f'mime_lite#{i} bound={bound}'
    if rec['error']:
      ev.append({'e': 'Fact', 'name': 'MimeLiteRuns', 'about': about + ' ' + rec['error'], 'holds': False})
      continue
    prev = [float(island.frac(x)) for x in c['inst']['init']]
    for r, (p, diag) in enumerate(zip(rec['rounds'], rec['diag'])):
      step = np.linalg.norm(np.array(prev) - np.array(p)) / slr
      ev.append({'e': 'Fact', 'name': 'AggregateWithinBound', 'about': f'{about} round {r + 1} step {step}', 'holds': bool(step <= bound * (1 + 1e-5) + 1e-7)})
      for cid, d in diag.items():
        if 'clipped_delta_l2_norm' not in d:
          ev.append({'e': 'Fact', 'name': 'ClippedNormReported', 'about': f'{about} round {r + 1} client {cid!r}', 'holds': False})
          continue
        cn, n0 = float(d['clipped_delta_l2_norm']), float(d['delta_l2_norm'])
        ev.append({'e': 'Fact', 'name': 'ClippedNormWithinBound', 'about': f'{about} round {r + 1} client {cid!r} norm {cn}', 'holds': bool(cn <= bound * (1 + 1e-5))})
        ev.append({'e': 'Fact', 'name': 'ClipIsIdentityBelowBound', 'about': f'{about} round {r + 1} client {cid!r} {n0}->{cn}',
                   'holds': bool(n0 > bound or abs(cn - n0) <= 1e-6 * (1 + n0))})
      prev = p
    ctx.case(key=('mimelite', i), nontrivial=bound < 2)
  # ignore_grads_haiku: frozen leaves bit-identical, the rest as the base optimizer on the sub-tree
  tol = intern.Tolerant(rtol=1e-6, atol=1e-7)
  ex = intern.Exact()
  nprng = np.random.RandomState(ctx.seed)
  import optax  # pylint: disable=g-import-not-at-top
  # (base optimizers whose update depends on the parameter VALUES - weight decay - move a parameter even under a zero gradient)
  for name in ('sgd', 'momentum', 'adam', 'adagrad', 'adamw', 'decayed_sgd'):
    mk = {'sgd': lambda: fedjax.optimizers.sgd(0.5), 'momentum': lambda: fedjax.optimizers.sgd(0.5, momentum=0.5),
          'adam': lambda: fedjax.optimizers.adam(0.125), 'adagrad': lambda: fedjax.optimizers.adagrad(0.5),
          'adamw': lambda: fedjax.optimizers.create_optimizer_from_optax(optax.adamw(0.125, weight_decay=0.25)),
          'decayed_sgd': lambda: fedjax.optimizers.create_optimizer_from_optax(optax.chain(optax.add_decayed_weights(0.25), optax.sgd(0.5)))}[name]
    params = {'dense': {'w': jnp.array(nprng.randn(2, 3), jnp.float32), 'b': jnp.array(nprng.randn(3), jnp.float32)},
              'frozen': {'w': jnp.array(nprng.randn(4), jnp.float32), 'b': jnp.array(nprng.randn(1), jnp.float32)}}
    # one or several ignored entries per module, a whole module ignored, nothing ignored
    for fi, frozen in enumerate(([('frozen', 'w'), ('dense', 'b')], [('frozen', 'w'), ('frozen', 'b'), ('dense', 'b')],
                                 [('dense', 'w'), ('dense', 'b')], [])):
      trainable = [(m, n) for m in params for n in params[m] if (m, n) not in frozen]

      def restrict(tree, trainable=trainable):
        out = {}
        for m, n in trainable:
          out.setdefault(m, {})[n] = tree[m][n]
        return out

      opt = fedjax.optimizers.ignore_grads_haiku(mk(), frozen)
      base = mk()
      sub = restrict(params)
      st, bst = opt.init(params), base.init(sub)
      p, q = params, sub
      for step in range(3):
        g = jax.tree_util.tree_map(lambda x: jnp.array(nprng.randn(*x.shape), jnp.float32), params)
        st, p = opt.apply(g, st, p)
        bst, q = base.apply(restrict(g), bst, q)
        for (mod, nm) in frozen:
          ev.append({'e': 'Call', 'key': f'ignore_grads({name}, set {fi}): frozen leaf {mod}/{nm}', 'out': ex(np.asarray(p[mod][nm]))})
          ev.append({'e': 'Call', 'key': f'ignore_grads({name}, set {fi}): frozen leaf {mod}/{nm}', 'out': ex(np.asarray(params[mod][nm]))})
        for (mod, nm) in trainable:
          ev.append({'e': 'Call', 'key': f'ignore_grads({name}, set {fi}): trainable leaf {mod}/{nm} after step {step + 1}', 'out': tol(np.asarray(p[mod][nm]))})
          ev.append({'e': 'Call', 'key': f'ignore_grads({name}, set {fi}): trainable leaf {mod}/{nm} after step {step + 1}', 'out': tol(np.asarray(q[mod][nm]))})
    ctx.case(key=('ignore_grads', name), nontrivial=True)
  vs, _ = vtraces.validate_batch(ctx, 'PureHistory', [{'events': ev}], {}, 'PH')
  v = vs[0]
  if not v.ok:
    ctx.violation(f'facts:{v.inv or "rejected"}:{(v.state or "")[:70]}', f'{v.inv} at event #{v.at} {v.event}; recorded {v.state}',
                  replay={'events': ev[max(0, (v.at or 1) - 6):(v.at or 1) + 1]})
  ctx.leg('T', facts=len(ev))


def win_of(t, at):
  return t['events'][at - 1].get('window', [[1]])


def absent_domain(t, at):
  """TRUE if, at some round up to `at`, the window (incl. the initial ones) had a domain with no example."""
  w = t['meta']['window']
  hist = [[1, 1]] * w + [e['counts'] for e in t['events'][:at] if e.get('e') == 'Round']
  for r in range(w, len(hist) + 1):
    win = hist[r - w:r]
    if any(sum(row[d] for row in win) == 0 for d in range(len(win[0]))):
      return True
  return False
