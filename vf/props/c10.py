"""C10 - a training round is a pure function of (server state, clients).

Leg M: TLC on Purity.tla enumerates every history tree of apply / re-apply / serialise-and-restore of depth <= 3
       (quick) / 4 (thorough); the deviations "mutates its input", "hidden state on the algorithm object" and "lossy
       round trip" are reported.
Leg R+T: every enumerated history (sampled in the quick tier) is executed on each built-in algorithm - FedAvg (also with
       haiku-shaped nested parameters and a freezing server optimizer), FedProx, Mime, MimeLite, AgnosticFedAvg,
       HypCluster, APFL - and on FedAvg loops around the four compression aggregators; rounds that continue from a
       serialised-and-restored state run on a SECOND algorithm object (the restoring process), so state hidden on the
       algorithm object shows as a Functional violation;
       after every operation every state created so far is fingerprinted (all leaves, nested containers, deleted
       buffers); the events are judged by TLC (PureHistory.tla: Functional, Immutable, FactsHold).
"""
import copy
import hashlib
import os
import pickle

import numpy as np

from vf import algs
from vf import island
from vf import traces as vtraces
from vf.core import Machinery


def fingerprint(tree):
  """Exact digest of the VALUE of a pytree / nested python container: every leaf (dtype, shape, bytes), the key sets
  of mappings, the lengths of sequences, the field names of dataclasses / named tuples; 'DELETED' if a buffer was
  donated.  Mapping types are not distinguished (haiku's FlatMap pickles to a dict with the same value)."""
  import collections.abc  # pylint: disable=g-import-not-at-top
  import jax  # pylint: disable=g-import-not-at-top
  h = hashlib.sha1()

  def walk(x):
    if isinstance(x, collections.abc.Mapping):
      h.update(b'{')
      for k in sorted(x, key=repr):
        h.update(repr(k).encode())
        walk(x[k])
      h.update(b'}')
    elif hasattr(x, '_fields') and isinstance(x, tuple):
      h.update(type(x).__name__.encode() + b'(')
      for f, y in zip(x._fields, x):
        h.update(f.encode())
        walk(y)
      h.update(b')')
    elif isinstance(x, (list, tuple)):
      h.update(b'[' if isinstance(x, list) else b'(')
      for y in x:
        walk(y)
      h.update(b']')
    elif hasattr(x, '__dataclass_fields__'):
      h.update(type(x).__name__.encode())
      for f in x.__dataclass_fields__:
        h.update(f.encode())
        walk(getattr(x, f))
    elif x is None or isinstance(x, (int, float, str, bytes, bool)):
      h.update(repr(x).encode())
    else:
      children, treedef = jax.tree_util.tree_flatten(x, is_leaf=lambda y: y is not x)
      if not (len(children) == 1 and children[0] is x):   # some other registered pytree node
        h.update(type(x).__name__.encode() + b'<')
        for y in children:
          walk(y)
        h.update(b'>')
        return
      if hasattr(x, 'is_deleted') and x.is_deleted():
        raise BufferError('deleted')
      a = np.asarray(x)
      h.update(str(a.dtype).encode() + str(a.shape).encode() + np.ascontiguousarray(a).tobytes())

  try:
    walk(tree)
    return h.hexdigest()
  except BufferError:
    return 'DELETED'
  except RuntimeError as ex:
    if 'deleted' in str(ex).lower():
      return 'DELETED'
    raise


class Interner:

  def __init__(self):
    self.tab = {}

  def __call__(self, x):
    return self.tab.setdefault(x, len(self.tab) + 1)


def compression_algorithm(fedjax, kind, case):
  """FedAvg-style loop around a compression aggregator whose key and bit count live in the state."""
  import jax  # pylint: disable=g-import-not-at-top
  from fedjax.aggregators import compression  # pylint: disable=g-import-not-at-top
  from fedjax.algorithms import fed_avg  # pylint: disable=g-import-not-at-top
  inst = case['inst']
  key = jax.random.PRNGKey(7)
  agg = {'uniform': lambda: compression.uniform_stochastic_quantizer(4, key),
         'uniform_arith': lambda: compression.uniform_stochastic_quantizer(4, key, 'arithmetic'),
         'rotated': lambda: compression.rotated_uniform_stochastic_quantizer(4, key),
         'drive': lambda: compression.structured_drive_quantizer(key),
         'terngrad': lambda: compression.terngrad_quantizer(key)}[kind]()
  train = fed_avg.create_train_for_each_client(algs.grad_fn(fedjax), island.make_opt(fedjax, inst['copt']))
  hp = island.hparams(fedjax, case['h'])
  sopt = island.make_opt(fedjax, inst['sopt'])

  def init(params):
    # rank >= 1 leaves only: the inverse structured rotation does not support rank-0 arrays (outside C10, see C18)
    params = jax.tree_util.tree_map(lambda x: x.reshape(-1), params)
    return {'params': params, 'opt_state': sopt.init(params), 'agg': agg.init()}

  def apply(state, clients):
    n = {cid: len(cds) for cid, cds, _ in clients}
    batch_clients = [(cid, cds.shuffle_repeat_batch(hp), rng) for cid, cds, rng in clients]
    deltas = [(cid, d, n[cid]) for cid, d in train(state['params'], batch_clients)]
    mean, agg_state = agg.apply(deltas, state['agg'])
    opt_state, params = sopt.apply(mean, state['opt_state'], state['params'])
    return {'params': params, 'opt_state': opt_state, 'agg': agg_state}, {cid: {} for cid, _, _ in clients}

  return fedjax.FederatedAlgorithm(init, apply), init, lambda s: island.params_list(s['params'])


ALGS = ['fed_avg', 'fed_avg_frozen', 'fed_prox', 'mime', 'mime_lite', 'agnostic_fed_avg', 'hyp_cluster', 'apfl',
        'agg:uniform', 'agg:uniform_arith', 'agg:rotated', 'agg:drive', 'agg:terngrad']


def make(fedjax, name, case):
  if name.startswith('agg:'):
    return compression_algorithm(fedjax, name[4:], case)
  if name == 'fed_avg_frozen':
    # haiku-shaped (module -> name -> array) parameters in plain nested dicts (what hk.transform(...).init returns) and a
    # server optimizer that freezes one entry: a configuration of the built-in FedAvg
    from fedjax.algorithms import fed_avg  # pylint: disable=g-import-not-at-top
    from fedjax.core import models  # pylint: disable=g-import-not-at-top
    from fedjax.core import optimizers  # pylint: disable=g-import-not-at-top
    inst = case['inst']

    def loss(params, batch, rng):
      return island.per_example_loss(params['lin'], batch, rng)

    sopt = optimizers.ignore_grads_haiku(island.make_opt(fedjax, inst['sopt']), [('lin', 'b')])
    alg = fed_avg.federated_averaging(models.grad(loss), island.make_opt(fedjax, inst['copt']), sopt, island.hparams(fedjax, case['h']))
    return alg, (lambda p: alg.init({'lin': dict(p)})), (lambda s_: island.params_list(s_.params['lin']))
  kw = {}
  if name == 'fed_prox':
    kw['mu'] = 0.25
  if name == 'hyp_cluster':
    kw.update(clusters=2, offsets=[0.0, 3.0])
  if name == 'mime_lite':
    kw['clip'] = 1.5
  return algs.build(fedjax, name, case, **kw)


def problem(fedjax):
  """The problem every history runs on: 4 clients, momentum on the server (a stateful optimizer state that a buggy round could donate)."""
  import jax  # pylint: disable=g-import-not-at-top
  R = island.R
  # four parameters (a scalar leaf and a vector leaf): the stochastic quantisers only randomise entries strictly inside the
  # range of their leaf, so a leaf needs at least three different entries for their keys to matter
  data = [[[1, 0, 2, -1], [2, 1, 0, 3], [3, -1, 1, 1]], [[5, 2, -2, 0], [0, 0, 4, 1]], [[-2, 1, 3, 2]], [[4, -3, 0, 0], [1, 1, 1, -4], [0, 2, 5, 2], [2, 2, -1, 1]]]
  h = {'bs': 2, 'epochs': 1, 'steps': None, 'drop': False, 'seed': 3, 'skip': False}
  dss = island.datasets(fedjax, data)
  dss = [fedjax.ClientDataset(dict(d.raw_examples, domain_id=(np.arange(len(d)) % 2).astype(np.int32))) for d in dss]
  ids = island.client_ids(len(dss))
  case = {'inst': {'data': data, 'init': [R(0), R(1), R(-1), R(2)], 'copt': island.opt_spec('sgd', 0.25), 'sopt': island.opt_spec('mom', 1, 0.5)}, 'h': h}
  cohorts = {1: [1, 2], 2: [2, 3, 4], 3: [1, 2]}    # cohort 3 = cohort 1 again (repeated participation)
  keys = {c: jax.random.split(jax.random.PRNGKey(40 + c), len(dss)) for c in cohorts}
  return case, dss, ids, cohorts, keys


def worker_main():
  """Another interpreter (its own PYTHONHASHSEED) restores the state saved after round 1 and continues with rounds 2 and 3."""
  import json  # pylint: disable=g-import-not-at-top
  import sys  # pylint: disable=g-import-not-at-top
  job = json.load(sys.stdin)
  import fedjax  # pylint: disable=g-import-not-at-top
  case, dss, ids, cohorts, keys = problem(fedjax)
  out = {}
  for name in job['names']:
    try:
      with open(os.path.join(job['dir'], name.replace(':', '_') + '.pkl'), 'rb') as f:
        st = pickle.load(f)
      alg = make(fedjax, name, case)[0]
      recs = []
      for c in (2, 3):
        clients = [(ids[k - 1], dss[k - 1], keys[c][k - 1]) for k in cohorts[c]]
        before = fingerprint(st)
        st, diag = alg.apply(st, clients)
        recs.append({'c': c, 'before': before, 'out': fingerprint(st) + '|' + fingerprint({repr(k): v for k, v in diag.items()})})
      out[name] = recs
    except Exception as ex:  # pylint: disable=broad-except
      out[name] = {'error': f'{type(ex).__name__}: {str(ex)[:200]}'}
  sys.stdout.write('\nRESULT ' + json.dumps(out) + '\n')


def run(ctx):
  import jax  # pylint: disable=g-import-not-at-top
  import fedjax  # pylint: disable=g-import-not-at-top
  from fedjax.training import checkpoint  # pylint: disable=g-import-not-at-top
  big = ctx.thorough
  rng = ctx.rng
  ctx.rule = ('case = (algorithm, history tree of apply / re-apply / serialise-restore-continue over 3 cohorts); non-trivial = a state '
              'is applied at least twice or a restored state is continued; distinct by algorithm and history')
  ctx.assumptions += ['"same" means bit-identical for the same listing order on this CPU backend',
                      'fingerprints cover every leaf, the key sets of nested containers and deleted (donated) buffers']
  r = ctx.model_check('Purity', name='Purity_M', constants=dict(MaxOps=4 if big else 3, NumCohorts=3, MutatesInput=False, HiddenState=False, LossyRoundtrip=False),
                      invariants=['Functional', 'Immutable', 'RoundtripTransparent', 'Emit'], workers=1)
  for tog, inv in (('MutatesInput', 'Immutable'), ('HiddenState', 'Functional'), ('LossyRoundtrip', ['Functional', 'RoundtripTransparent'])):
    c = dict(MaxOps=3, NumCohorts=2, MutatesInput=False, HiddenState=False, LossyRoundtrip=False)
    c[tog] = True
    ctx.model_check('Purity', expect=inv, name=f'Purity_ctl_{tog}', constants=c, invariants=['Functional', 'Immutable', 'RoundtripTransparent'], coverage=False)
  ctx.require_actions(['ApplyStep', 'RoundtripStep'])
  hists = [j['hist'] for j in r.json]
  case, dss, ids, cohorts, keys = problem(fedjax)
  xdir = os.path.join(ctx.scratch, 'xproc')
  os.makedirs(xdir, exist_ok=True)
  interns, evs = {}, {}
  per_alg = min(len(hists), 400) if big else 40   # (depth 4 gives ~3 000 histories; 400 per algorithm keeps thorough near 10 min)
  traces = []
  scratch_ckpt = os.path.join(ctx.scratch, 'ckpt')
  for name in ALGS:
    alg, init, params_of = make(fedjax, name, case)
    other = []     # a second algorithm object, built on demand: "the process that restored the state and continues"
    intern_v = Interner()
    ev = []
    # continuation in another process: object 1 runs cohorts 1,2,3 from the initial state; a second algorithm object,
    # whose very first call is on the restored state after round 1, continues with cohorts 2,3: same keys, same outputs
    try:
      st = init(island.params_tree(case['inst']['init']))
      line1, line2 = [st], None
      for c in (1, 2, 3):
        clients = [(ids[k - 1], dss[k - 1], keys[c][k - 1]) for k in cohorts[c]]
        before = fingerprint(line1[-1])
        new, diag = alg.apply(line1[-1], clients)
        ev.append({'e': 'Call', 'key': f'{name}:apply(state={intern_v(before)}, cohort={cohorts[c]}, keys#{c})',
                   'out': intern_v(fingerprint(new) + '|' + fingerprint({repr(k): v for k, v in diag.items()}))})
        line1.append(new)
        if c == 1:
          with open(os.path.join(xdir, name.replace(':', '_') + '.pkl'), 'wb') as f:
            pickle.dump(new, f)
          other.append(make(fedjax, name, case)[0])
          line2 = [pickle.loads(pickle.dumps(new))]
        else:
          before2 = fingerprint(line2[-1])
          new2, diag2 = other[0].apply(line2[-1], clients)
          ev.append({'e': 'Call', 'key': f'{name}:apply(state={intern_v(before2)}, cohort={cohorts[c]}, keys#{c})',
                     'out': intern_v(fingerprint(new2) + '|' + fingerprint({repr(k): v for k, v in diag2.items()}))})
          line2.append(pickle.loads(pickle.dumps(new2)))
      ctx.case(key=(name, 'continuation'), nontrivial=True)
      interns[name], evs[name] = intern_v, ev
    except Exception as ex:  # pylint: disable=broad-except
      ctx.violation(f'exception:{name}:{type(ex).__name__}', f'{name}: {type(ex).__name__}: {str(ex)[:200]} during the continuation scenario', replay={'algorithm': name})
      continue
    chosen = list(hists)
    rng.shuffle(chosen)
    chosen = sorted(chosen[:per_alg], key=repr)
    broken = False
    for hi, hist in enumerate(chosen):
      nodes = [init(island.params_tree(case['inst']['init']))]
      restored_line = [False]   # node descends from a serialise-restore: its rounds run on the other algorithm object
      tag = f'{name}#h{hi}'

      def observe_all():
        for ni, nd in enumerate(nodes):
          ev.append({'e': 'Observe', 'obj': f'{tag}:state{ni + 1}', 'fp': intern_v(fingerprint(nd))})

      observe_all()
      try:
        for oi, op in enumerate(hist):
          src = nodes[op['i'] - 1]
          if op['op'] == 'apply':
            before = fingerprint(src)
            clients = [(ids[c - 1], dss[c - 1], keys[op['c']][c - 1]) for c in cohorts[op['c']]]
            if restored_line[op['i'] - 1]:
              if not other:
                other.append(make(fedjax, name, case)[0])
              new, diag = other[0].apply(src, clients)
            else:
              new, diag = alg.apply(src, clients)
            nodes.append(new)
            restored_line.append(restored_line[op['i'] - 1])
            diag_fp = fingerprint({repr(k): v for k, v in diag.items()})
            ev.append({'e': 'Call', 'key': f'{name}:apply(state={intern_v(before)}, cohort={cohorts[op["c"]]}, keys#{op["c"]})',
                       'out': intern_v(fingerprint(new) + '|' + diag_fp)})
          else:
            if (oi + hi) % 3 == 2:
              # fetched to the host leaf by leaf first (a pytree round trip), as is common before saving
              restored = pickle.loads(pickle.dumps(jax.device_get(src)))
            elif oi % 2 == 0:
              restored = pickle.loads(pickle.dumps(src))
            else:
              d = os.path.join(scratch_ckpt, f'{name.replace(":", "_")}_{hi}_{oi}')
              os.makedirs(d, exist_ok=True)
              checkpoint.save_checkpoint(d, src, round_num=oi + 1, keep=1)
              restored, _ = checkpoint.load_latest_checkpoint(d)
              import shutil  # pylint: disable=g-import-not-at-top
              shutil.rmtree(d, ignore_errors=True)
            nodes.append(restored)
            restored_line.append(True)
            ev.append({'e': 'Fact', 'name': 'RoundtripEqual', 'about': f'{tag} op {oi + 1}', 'holds': fingerprint(restored) == fingerprint(src)})
          observe_all()
      except Exception as ex:  # pylint: disable=broad-except
        ctx.violation(f'exception:{name}:{type(ex).__name__}', f'{name}: {type(ex).__name__}: {str(ex)[:200]} during history {hist}', replay={'algorithm': name, 'history': hist})
        broken = True
        break
      reuse = any(sum(1 for o in hist if o['op'] == 'apply' and o['i'] == k) >= 2 for k in range(1, len(hist) + 2)) or \
          any(o['op'] == 'roundtrip' for o in hist[:-1])
      ctx.case(key=(name, repr(hist)), nontrivial=reuse)
    if not broken:
      traces.append({'events': ev, 'meta': {'algorithm': name, 'histories': len(chosen)}})
  # the aggregators called directly (what a custom algorithm does): the caller's client updates are arguments of the round
  # too - device arrays handed in stay readable and unchanged, and the same (updates, state) gives the same (mean, state)
  import jax.numpy as jnp  # pylint: disable=g-import-not-at-top
  from fedjax.aggregators import compression  # pylint: disable=g-import-not-at-top
  akey = jax.random.PRNGKey(11 + ctx.seed)
  makers = {'uniform': lambda: compression.uniform_stochastic_quantizer(4, akey),
            'uniform_arith': lambda: compression.uniform_stochastic_quantizer(4, akey, 'arithmetic'),
            'rotated': lambda: compression.rotated_uniform_stochastic_quantizer(4, akey),
            'drive': lambda: compression.structured_drive_quantizer(akey),
            'terngrad': lambda: compression.terngrad_quantizer(akey)}
  for kind, mk in makers.items():
    name = f'aggregator:{kind}'
    intern_v = Interner()
    ev = []
    vals = [np.array([[rng.uniform(-3, 3) for _ in range(5)] for _ in range(3)]) for _ in range(3)]
    for flavour in ('device', 'host', 'shared'):
      tag = f'{name}#{flavour}'
      try:
        agg = mk()
        if flavour == 'device':
          upd = [{'w': jnp.asarray(v[0], jnp.float32), 'b': jnp.asarray(v[1:], jnp.float32)} for v in vals]
        elif flavour == 'host':
          upd = [{'w': np.asarray(v[0], np.float32), 'b': np.asarray(v[1:], np.float32)} for v in vals]
        else:   # one update object listed for two clients
          one = {'w': jnp.asarray(vals[0][0], jnp.float32), 'b': jnp.asarray(vals[0][1:], jnp.float32)}
          upd = [one, {'w': jnp.asarray(vals[1][0], jnp.float32), 'b': jnp.asarray(vals[1][1:], jnp.float32)}, one]
        weights = [2.0, 1.0, 3.0]
        states = [agg.init()]

        def observe():
          for ui, u in enumerate(upd):
            ev.append({'e': 'Observe', 'obj': f'{tag}:update{ui + 1}', 'fp': intern_v(fingerprint(u))})
          for si, st_ in enumerate(states):
            ev.append({'e': 'Observe', 'obj': f'{tag}:state{si + 1}', 'fp': intern_v(fingerprint(st_))})

        observe()
        for si in (0, 0, 1):
          args = [(ids[k], upd[k], weights[k]) for k in range(3)]
          if si == 1:
            args = iter(args)     # the documented argument type is an Iterable
          before = fingerprint(states[si]) + '|' + fingerprint(upd)
          mean, nst = agg.apply(args, states[si])
          states.append(nst)
          ev.append({'e': 'Call', 'key': f'{name}:apply({flavour} updates and state {intern_v(before)})', 'out': intern_v(fingerprint(mean) + '|' + fingerprint(nst))})
          observe()
        ctx.case(key=(name, flavour), nontrivial=True)
      except Exception as ex:  # pylint: disable=broad-except
        ctx.violation(f'exception:{name}:{type(ex).__name__}', f'{name}: {type(ex).__name__}: {str(ex)[:200]} when the aggregator is applied again to the same {flavour} updates', replay={'aggregator': kind, 'flavour': flavour})
        ev = None
        break
    if ev is not None:
      traces.append({'events': ev, 'meta': {'algorithm': name, 'histories': 3}})
  # the library's own pytree serialiser on the parameters of an INITIAL state, whose leaves are whatever the user handed to
  # init(): host arrays in C order, Fortran order (a transposed weight matrix) or strided views; continuing from the restored
  # parameters gives the same states as continuing from the original ones
  from fedjax.core import serialization  # pylint: disable=g-import-not-at-top
  from fedjax.algorithms import fed_avg as fed_avg_mod  # pylint: disable=g-import-not-at-top
  from fedjax.core import models as core_models  # pylint: disable=g-import-not-at-top

  def lin_loss(params, batch, rng_):
    return 0.5 * jnp.sum((batch['x'] @ params['w'] + params['b'] - batch['y']) ** 2, axis=-1)

  lin_alg = fed_avg_mod.federated_averaging(core_models.grad(lin_loss), fedjax.optimizers.sgd(0.125), fedjax.optimizers.sgd(1.0, momentum=0.5),
                                            fedjax.ShuffleRepeatBatchHParams(batch_size=2, num_epochs=1, seed=5))
  nrs = np.random.RandomState(ctx.seed + 3)
  lin_clients = [(b'l%d' % i, fedjax.ClientDataset({'x': nrs.randn(3, 3).astype(np.float32), 'y': nrs.randn(3, 2).astype(np.float32)}), jax.random.PRNGKey(70 + i)) for i in range(3)]
  w0 = nrs.randn(2, 3).astype(np.float32)
  big_w = nrs.randn(6, 4).astype(np.float32)
  layouts = {'C order': np.ascontiguousarray(w0.T), 'Fortran order (transposed)': w0.T, 'strided view': big_w[::2, ::2][:3, :2], 'device array': jnp.asarray(w0.T)}
  ev_l, intern_l = [], Interner()
  for lname, wmat in layouts.items():
    try:
      p_in = {'w': wmat, 'b': np.zeros((2,), np.float32)}
      p_back = serialization.msgpack_deserialize(serialization.msgpack_serialize(p_in))
      ev_l.append({'e': 'Fact', 'name': 'RoundtripEqual', 'about': f'msgpack round trip of initial parameters in {lname}', 'holds': fingerprint(p_back) == fingerprint(p_in)})
      for tag, p_ in (('original', p_in), ('restored', p_back)):
        st_l = lin_alg.init(p_)
        for rr in range(2):
          before = fingerprint(st_l)
          st_l, _ = lin_alg.apply(st_l, lin_clients)
          ev_l.append({'e': 'Call', 'key': f'linear fed_avg:apply(state={intern_l(before)}, round {rr + 1})', 'out': intern_l(fingerprint(st_l))})
      ctx.case(key=('msgpack-initial-parameters', lname), nontrivial=True)
    except Exception as ex:  # pylint: disable=broad-except
      ctx.violation(f'exception:msgpack-initial-parameters:{type(ex).__name__}', f'{type(ex).__name__}: {str(ex)[:200]} for initial parameters in {lname}', replay={'layout': lname})
  traces.append({'events': ev_l, 'meta': {'algorithm': 'fed_avg from msgpack-restored initial parameters', 'histories': len(layouts)}})
  # continuation in ANOTHER INTERPRETER (different PYTHONHASHSEED): the same calls must give the same outputs there
  import json  # pylint: disable=g-import-not-at-top
  import subprocess  # pylint: disable=g-import-not-at-top
  import sys  # pylint: disable=g-import-not-at-top
  env = dict(os.environ, PYTHONHASHSEED=str(4242 + ctx.seed))
  pr = subprocess.run([sys.executable, '-c', 'from vf.props import c10; c10.worker_main()'], input=json.dumps({'names': sorted(evs), 'dir': xdir}),
                      capture_output=True, text=True, env=env, timeout=3000)
  if pr.returncode != 0 or '\nRESULT ' not in pr.stdout:
    raise Machinery('c10 worker failed: ' + pr.stderr[-500:])
  other_proc = json.loads(pr.stdout[pr.stdout.rindex('\nRESULT ') + 8:])
  for name, recs in other_proc.items():
    if isinstance(recs, dict):
      ctx.violation(f'exception:{name}:other-process', f'{name}: {recs["error"]} when another interpreter continues from the restored round-1 state', replay={'algorithm': name})
      continue
    for rc in recs:
      evs[name].append({'e': 'Call', 'key': f'{name}:apply(state={interns[name](rc["before"])}, cohort={cohorts[rc["c"]]}, keys#{rc["c"]})',
                        'out': interns[name](rc['out']), 'where': 'another interpreter'})
    ctx.case(key=(name, 'other-process'), nontrivial=True)
  verdicts, _ = vtraces.validate_batch(ctx, 'PureHistory', traces, {}, 'PH')
  for t, v in zip(traces, verdicts):
    if v.ok:
      ctx.trace_ok(t['meta']['histories'] - 1)
      continue
    name = t['meta']['algorithm']
    what = v.inv or 'rejected'
    detail = (v.state or '')[:160]
    key = f'{what}:{name}'
    if name == 'apfl' and what == 'Immutable':
      key = 'apfl-mutates-client-states-of-its-argument'
    ctx.violation(key, f'{name}: {what} violated at event #{v.at} {v.event}; recorded {detail}', replay={'algorithm': name, 'events': t['events'][max(0, (v.at or 1) - 10):(v.at or 1) + 1]})
  ctx.leg('R', histories_enumerated=len(hists), algorithms=len(ALGS), executed=sum(t['meta']['histories'] for t in traces))
  ctx.sample({'algorithm': 'fed_avg', 'history': hists[len(hists) // 2], 'events': traces[0]['events'][:8] if traces else []})
