"""Check context: accumulates coverage, findings and violations; writes evidence; decides the exit code."""
import hashlib
import json
import os
import random
import shutil
import sys
import time
import traceback

from vf import tlc as tlcmod

ROOT = os.path.dirname(os.path.dirname(os.path.abspath(__file__)))
# VERIF_SIDE=<dir>: development runs against a seeded change keep their scratch and evidence away from the real ones
SIDE = os.environ.get('VERIF_SIDE')
SCRATCH = os.path.join(SIDE, 'scratch') if SIDE else os.path.join(ROOT, '.scratch')
FINDINGS = os.path.join(ROOT, 'known_findings.json')
EVIDENCE = os.path.join(SIDE, 'evidence') if SIDE else os.path.join(ROOT, 'evidence')


class Machinery(Exception):
  """The harness itself failed (never reported as a VIOLATION)."""


def load_findings():
  if not os.path.exists(FINDINGS):
    return {'open': [], 'fixed': []}
  with open(FINDINGS) as f:
    return json.load(f)


class Ctx:
  """One run of one property check."""

  def __init__(self, pid, tier, seed, keep_scratch=False):
    self.pid = pid
    self.tier = tier
    self.seed = seed
    self.rng = random.Random(seed)
    self.scratch = os.path.join(SCRATCH, pid)
    shutil.rmtree(self.scratch, ignore_errors=True)
    os.makedirs(self.scratch, exist_ok=True)
    self.replays = os.path.join(SCRATCH, 'replays')
    os.makedirs(self.replays, exist_ok=True)
    self.t0 = time.time()
    self.states = 0
    self.transitions = 0
    self.traces = 0
    self.evaluations = 0
    self._nontrivial = set()
    self.samples = []
    self.violations = []
    self.violation_counts = {}
    self.known = []
    self.assumptions = []
    self.legs = {}
    self.tlc_runs = []
    self.actions = {}
    self.controls = []
    self.notes = []
    self.exhaustive = None
    self.rule = ''
    fk = load_findings()
    self.open_findings = {f['key']: f for f in fk.get('open', []) if f['property'] == pid}
    self.thorough = tier == 'thorough'

  # ---- TLC ----
  def tlc(self, module, **kw):
    kw.setdefault('scratch', self.scratch)
    r = tlcmod.run(module, **kw)
    self.states += r.distinct
    self.transitions += r.generated
    for a, (d, t) in r.actions.items():
      od, ot = self.actions.get(a, (0, 0))
      self.actions[a] = (od + d, ot + t)
    self.tlc_runs.append({'name': kw.get('name') or module, 'distinct': r.distinct, 'generated': r.generated,
                          'depth': r.depth, 'wall_s': round(r.wall, 2), 'violated': r.violated})
    return r

  def model_check(self, module, expect=None, **kw):
    """Leg M: the spec must satisfy its properties (or, with expect=<name>, TLC must report that violation:
    a sensitivity control showing the invariant is not vacuous)."""
    r = self.tlc(module, **kw)
    nm = kw.get('name') or module
    if expect is None:
      if r.violated:
        path = self.save_replay({'kind': 'tlc-counterexample', 'module': module, 'run': nm, 'violated': r.violated,
                                 'trace': r.error_trace})
        self.violation(f'spec:{nm}:{r.violated}', f'TLC reports {r.violated} violated on {nm}', path=path)
    else:
      got = r.violated
      okc = got is not None and (expect is True or got == expect or (isinstance(expect, (list, tuple, set)) and got in expect))
      self.controls.append({'run': nm, 'expected_violation': expect if expect is not True else 'any', 'got': got, 'ok': okc})
      if not okc:
        raise Machinery(f'sensitivity control {nm}: expected TLC to report {expect}, got {got}')
    return r

  def require_actions(self, names):
    missing = [n for n in names if self.actions.get(n, (0, 0))[1] == 0]
    if missing:
      raise Machinery(f'vacuity: actions never taken in any TLC run of this check: {missing}')

  # ---- coverage bookkeeping ----
  def case(self, key=None, nontrivial=True, n=1):
    self.evaluations += n
    if nontrivial and key is not None:
      self._nontrivial.add(key if isinstance(key, (str, int, tuple)) else json.dumps(key, sort_keys=True, default=str))

  def trace_ok(self, n=1):
    self.traces += n

  def sample(self, obj, limit=6):
    if len(self.samples) < limit:
      self.samples.append(obj)

  def leg(self, name, **kv):
    d = self.legs.setdefault(name, {})
    for k, v in kv.items():
      if isinstance(v, (int, float)) and isinstance(d.get(k), (int, float)):
        d[k] += v
      else:
        d[k] = v

  # ---- verdicts ----
  def save_replay(self, obj):
    blob = json.dumps(obj, sort_keys=True, default=_default)
    h = hashlib.sha1(blob.encode()).hexdigest()[:12]
    path = os.path.join(self.replays, f'{self.pid}_{h}.json')
    with open(path, 'w') as f:
      f.write(blob)
    return path

  def violation(self, key, what, replay=None, path=None):
    """key: stable identifier of the specific failing input/call site (matched against known_findings.json)."""
    if key in self.open_findings:
      if key not in [k for k, _ in self.known]:
        self.known.append((key, self.open_findings[key].get('what', what)))
      return False
    if path is None and key not in self.violation_counts:
      path = self.save_replay({'property': self.pid, 'key': key, 'what': what, 'replay': replay})
    self.violation_counts[key] = self.violation_counts.get(key, 0) + 1
    if self.violation_counts[key] == 1:
      self.violations.append((key, what, path))
    return True

  def finish(self):
    wall = time.time() - self.t0
    cov = {
        'states': self.states,
        'transitions': self.transitions,
        'traces_validated_against_impl': self.traces,
        'samples': self.samples or [{'note': 'no sample recorded'}],
        'evaluations': self.evaluations,
        'distinct_nontrivial': len(self._nontrivial),
        'rule': self.rule,
        'tlc_runs': self.tlc_runs,
        'actions_taken': {a: t for a, (d, t) in sorted(self.actions.items())},
        'legs': self.legs,
        'sensitivity_controls': self.controls,
        'known_findings_hit': [k for k, _ in self.known],
        'notes': self.notes,
    }
    if self.exhaustive is not None:
      cov['exhaustive'] = self.exhaustive
    ev = {
        'property_id': self.pid,
        'tier': self.tier,
        'seed': self.seed,
        'level': 'model_checking',
        'coverage': cov,
        'assumptions': self.assumptions,
        'wall_s': round(wall, 2),
        'violations': len(self.violations),
    }
    os.makedirs(EVIDENCE, exist_ok=True)
    with open(os.path.join(EVIDENCE, self.pid + '.json'), 'w') as f:
      json.dump(ev, f, indent=1, default=_default)
      f.write('\n')
    for key, what in self.known:
      print(f'KNOWN-FINDING: property={self.pid} {key}: {what}')
    for key, what, path in self.violations:
      print(f'VIOLATION property={self.pid} replay={path}')
      print(f'  {key} (x{self.violation_counts.get(key, 1)}): {what}')
    print(f'[{self.pid}] tier={self.tier} seed={self.seed} states={self.states} transitions={self.transitions} '
          f'traces={self.traces} evaluations={self.evaluations} nontrivial={len(self._nontrivial)} '
          f'violations={len(self.violations)} known={len(self.known)} wall={wall:.1f}s')
    return 1 if self.violations else 0


def _default(o):
  try:
    import numpy as np  # pylint: disable=g-import-not-at-top
    if isinstance(o, np.ndarray):
      return o.tolist()
    if isinstance(o, np.generic):
      return o.item()
  except ImportError:
    pass
  if isinstance(o, bytes):
    return list(o)
  if isinstance(o, (set, frozenset)):
    return sorted(o, key=repr)
  return repr(o)


def main(argv=None):
  import argparse
  import importlib
  ap = argparse.ArgumentParser()
  ap.add_argument('pid')
  ap.add_argument('--tier', default=os.environ.get('VERIF_TIER', 'quick'), choices=['quick', 'thorough'])
  ap.add_argument('--seed', type=int, default=int(os.environ.get('VERIF_SEED', '0') or 0))
  ap.add_argument('--replay', default=None)
  a = ap.parse_args(argv)
  pid = a.pid.upper()
  ctx = Ctx(pid, a.tier, a.seed)
  try:
    mod = importlib.import_module('vf.props.' + pid.lower())
    if a.replay:
      with open(a.replay) as f:
        rp = json.load(f)
      if not hasattr(mod, 'replay'):
        print(json.dumps(rp, indent=1)[:4000])
        print('(no programmatic replay for this property; the file above holds the failing case; re-running the check)')
        mod.run(ctx)
      else:
        mod.replay(ctx, rp)
    else:
      mod.run(ctx)
    code = ctx.finish()
  except (Machinery, tlcmod.TlcError) as ex:
    traceback.print_exc()
    print(f'MACHINERY-FAILURE property={pid}: {ex}')
    return 2
  except Exception as ex:  # pylint: disable=broad-except
    traceback.print_exc()
    print(f'MACHINERY-FAILURE property={pid}: unexpected {type(ex).__name__}: {ex}')
    return 2
  return code


if __name__ == '__main__':
  sys.exit(main())
