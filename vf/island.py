"""Exact-island federated problems (DESIGN 3.2): instances whose every intermediate value is a small rational.

An instance is the JSON form of the `inst` record of spec/FedRound.tla.  The batch streams are obtained from the REAL
ClientDataset.shuffle_repeat_batch (an `idx` feature exposes example positions), TLC computes the exact rational
parameters after every round (FedRoundOracle), and the real algorithms are run on the same inputs.
"""
import fractions
import json
import os

import numpy as np

from vf.core import Machinery

TOG = dict(WeightByExamples=True, FreshClientOpt=True, RoundParams=True, ZeroGuard=True, CarryServerOpt=True, ProxOnRound=True, AdvanceKey=True, ApplyOnEmpty=True)


def R(x):
  f = fractions.Fraction(x)
  return [f.numerator, f.denominator]


def frac(r):
  return fractions.Fraction(r[0], r[1])


def opt_spec(kind, lr, beta=0):
  return {'kind': kind, 'lr': R(lr), 'beta': R(beta)}


def make_opt(fedjax, spec):
  lr = float(frac(spec['lr']))
  if spec['kind'] == 'sgd':
    return fedjax.optimizers.sgd(lr)
  return fedjax.optimizers.sgd(lr, momentum=float(frac(spec['beta'])), nesterov=spec['kind'] == 'nes')


def client_ids(n):
  return [b'cl\x00%02d' % i for i in range(n)]


def datasets(fedjax, data):
  """data: per client list of examples (each a list of ints, one per leaf)."""
  out = []
  nleaves = None
  for ex in data:
    if ex:
      nleaves = len(ex[0])
  nleaves = nleaves or 1
  for ex in data:
    x = np.array(ex, np.float32).reshape(len(ex), nleaves)
    out.append(fedjax.ClientDataset({'x': x, 'idx': np.arange(1, len(ex) + 1, dtype=np.int32)}))
  return out


def real_streams(fedjax, dss, hp):
  """The batch streams the real code produces for these datasets and hyper-parameters (seed must be fixed)."""
  return [[[int(i) for i in b['idx']] for b in ds.shuffle_repeat_batch(hp)] for ds in dss]


def stream_shape_problem(h, n, stream):
  """The documented shape of a client's shuffled batch stream (ShuffleBatch.tla, DeclSteps): as few batches as go over the
  dataset `epochs` times (dropping the remainder: as many full batches as fit), capped by num_steps; every batch full.
  Returns None or a description of the deviation."""
  bs, e, st, drop = h['bs'], h['epochs'], h['steps'], h['drop']
  if e is None:
    want = st
  else:
    total = n * e
    from_epochs = total // bs if drop else -(-total // bs)
    want = from_epochs if st is None else min(st, from_epochs)
  if len(stream) != want:
    return f'{len(stream)} batches, the documented number for N={n}, {h} is {want}'
  if any(len(b) != bs for b in stream):
    return f'batch sizes {[len(b) for b in stream]}, every batch holds batch_size={bs} rows'
  # sampling without replacement (ShuffleBatch.tla, WindowsArePermutations): every complete window of N draws is a permutation
  # of the client's examples, the draws of the last, incomplete window are distinct
  flat = [i for b in stream for i in b]
  for w0 in range(0, len(flat), max(n, 1)):
    win = flat[w0:w0 + n]
    if len(set(win)) != len(win) or any(not 1 <= i <= n for i in win):
      return f'draws {w0 + 1}..{w0 + len(win)} of the stream are {win}: not a draw without replacement from the {n} examples'
  return None


def hparams(fedjax, h):
  return fedjax.ShuffleRepeatBatchHParams(batch_size=h['bs'], num_epochs=h['epochs'], num_steps=h['steps'], drop_remainder=h['drop'],
                                          seed=h['seed'], skip_shuffle=h.get('skip', False))


def params_tree(init):
  import jax.numpy as jnp  # pylint: disable=g-import-not-at-top
  vals = [float(frac(r)) for r in init]
  if len(vals) == 1:   # (a zero-size leaf segfaults XLA:CPU under pmap with forced host devices - not fedjax's business)
    return {'a': jnp.array(vals[0], jnp.float32)}
  return {'a': jnp.array(vals[0], jnp.float32), 'b': jnp.array(vals[1:], jnp.float32)}


def params_list(tree):
  return [float(np.asarray(tree['a']))] + ([float(x) for x in np.asarray(tree['b']).reshape(-1)] if 'b' in tree else [])


def _flat(params):
  import jax.numpy as jnp  # pylint: disable=g-import-not-at-top
  if 'b' in params:
    return jnp.concatenate([params['a'].reshape(1), params['b'].reshape(-1)])
  return params['a'].reshape(1)


def per_example_loss(params, batch, rng):
  """1/2 sum_l (w_l - x_l)^2 per example; does not use rng."""
  import jax.numpy as jnp  # pylint: disable=g-import-not-at-top
  w = _flat(params)
  return 0.5 * jnp.sum((w[None, :] - batch['x']) ** 2, axis=1)


def int_noise_of(rng):
  """The integer eta(key) of the key-dependent exact-island loss."""
  import jax  # pylint: disable=g-import-not-at-top
  return jax.random.randint(rng, (), -2, 3)


def int_noise_loss(params, batch, rng):
  """1/2 sum_l (w_l - x_l)^2 + eta(rng) * sum_l w_l per example with an INTEGER eta: stays on the exact island, and the
  batch gradient is (w - mean x) + eta on every leaf, so the parameters reveal which key every step drew with."""
  import jax.numpy as jnp  # pylint: disable=g-import-not-at-top
  w = _flat(params)
  eta = int_noise_of(rng).astype(jnp.float32)
  return 0.5 * jnp.sum((w[None, :] - batch['x']) ** 2, axis=1) + jnp.sum(w) * eta


def noisy_per_example_loss(params, batch, rng):
  import jax  # pylint: disable=g-import-not-at-top
  import jax.numpy as jnp  # pylint: disable=g-import-not-at-top
  w = _flat(params)
  eta = jax.random.normal(rng, w.shape) * 0.125
  return 0.5 * jnp.sum((w[None, :] - batch['x']) ** 2, axis=1) + jnp.sum(w * eta)


def complete(i):
  """Fills the optional fields of an instance (Mime server rate; key-dependent loss term: zero when the loss ignores its key)."""
  return dict(i, reg=i.get('reg', R(0)), mime_slr=i.get('mime_slr', R(1)), noise=i.get('noise', [[[0] * max(1, len(s)) for s in i['stream']] for _ in range(i['rounds'])]))


def oracle(ctx, instances, tag, module='FedRoundOracle', extra_consts=None):
  """TLC computes the exact parameters after every round for each instance. Returns list (per instance) of rounds -> list of Fractions."""
  from vf.tlc import Raw  # pylint: disable=g-import-not-at-top
  path = os.path.join(ctx.scratch, f'instances_{tag}.json')
  instances = [complete(i) for i in instances]
  with open(path, 'w') as f:
    json.dump([{'inst': i, 'events': []} for i in instances], f)
  consts = dict(Instances=Raw('{}'), **TOG)
  consts.update(extra_consts or {})
  r = ctx.tlc(module, name=f'{module}_{tag}', constants=consts, init='TraceInit', next_='TraceNext', invariants=['EmitOracle'],
              constraints=['Verdicts'], postcondition='Report', workers=1, coverage=False, env={'TRACE_FILE': path}, timeout=3000)
  out = [None] * len(instances)
  for j in r.json:
    if 'tid' in j:
      out[j['tid'] - 1] = j
    if 'violated' in j:
      raise Machinery(f'oracle instance {j["violated"]} violates {j["inv"]} on the specification itself')
  if any(o is None for o in out):
    raise Machinery('oracle did not finish every instance (overflow of the exact island?)')
  return out


def is_pow2(n):
  return n > 0 and (n & (n - 1)) == 0


def random_instance(rng, fedjax, leaves=2, max_clients=5, rounds=None, dyadic=True, allow_momentum=True, dups=False):
  """Draws a population, hyper-parameters and cohorts; streams come from the real batching code."""
  n = rng.randint(1, max_clients)
  sizes = [rng.choice([0, 1, 2, 3, 4, 5, 6]) for _ in range(n)]
  data = [[[rng.randint(-4, 4) for _ in range(leaves)] for _ in range(s)] for s in sizes]
  bs = rng.choice([1, 2, 4] if dyadic else [1, 2, 3, 4, 5])
  h = {'bs': bs, 'epochs': rng.choice([1, 1, 2, None]), 'steps': rng.choice([None, 1, 2, 3, None, 1, 2, 3, 0]), 'drop': rng.random() < .3,
       'seed': rng.randint(0, 1000), 'skip': rng.random() < .2}
  if h['epochs'] is None and h['steps'] is None:
    h['steps'] = 2
  if h['epochs'] is None:
    # a zero-example client with num_epochs=None never terminates in shuffle_repeat_batch (domain note F-14)
    data = [d if d else [[rng.randint(-4, 4) for _ in range(leaves)]] for d in data]
  rounds = rounds or rng.choice([1, 2, 3] if dyadic else [1, 2])
  cohorts = []
  for _ in range(rounds):
    for _try in range(50):
      k = rng.randint(1, n)
      co = rng.sample(range(1, n + 1), k)
      if dups and rng.random() < .5:     # sampling with replacement: a client listed twice in one cohort
        co.insert(rng.randint(0, len(co)), rng.choice(co))
      tot = sum(len(data[c - 1]) for c in co)
      if not dyadic or tot == 0 or is_pow2(tot):
        break
    cohorts.append(co)
  lrs = [1, 0.5, 0.25] if dyadic else [1, 0.5, 0.25, 2]
  copt = opt_spec(rng.choice(['mom', 'nes']), rng.choice(lrs), rng.choice([0.5, 0.25])) if (allow_momentum and rng.random() < .3) else opt_spec('sgd', rng.choice(lrs))
  sopt = opt_spec(rng.choice(['mom', 'mom', 'nes']), rng.choice(lrs), 0.5) if (allow_momentum and rng.random() < .4) else opt_spec('sgd', rng.choice(lrs))
  dss = datasets(fedjax, data)
  streams = real_streams(fedjax, dss, hparams(fedjax, h))
  # cap the work so the exact island stays inside 32-bit rationals
  if max((len(s) for s in streams), default=0) > 4:
    return None
  inst = {'data': data, 'stream': streams, 'init': [R(rng.randint(-2, 2)) for _ in range(leaves)], 'copt': copt, 'sopt': sopt,
          'mu': R(0), 'rounds': rounds, 'cohorts': cohorts}
  exact = (dyadic and all(is_pow2(len(b)) for s in streams for b in s)
           and all(is_pow2(t) or t == 0 for t in (sum(len(data[c - 1]) for c in co) for co in cohorts)))
  # as it is, and with room for a proximal weight (a proximal term can shrink the values: neither bound implies the other)
  if not (within_island(inst) and within_island(dict(inst, mu=R(1)))):
    return None
  return {'inst': inst, 'h': h, 'exact': exact}


def within_island(inst, bound=1 << 13):
  """Instance FILTER (not an oracle): simulates the rounds with Fractions and checks that every intermediate value keeps
  numerator and denominator below `bound`, so that TLC's 32-bit rationals cannot overflow."""
  F = fractions.Fraction
  big = [False]

  def chk(x):
    if abs(x.numerator) >= bound or x.denominator >= bound:
      big[0] = True
    return x

  def opt_apply(opt, g, s, p):
    lr, beta = frac(opt['lr']), frac(opt['beta'])
    if opt['kind'] == 'sgd':
      return [chk(pi - lr * gi) for pi, gi in zip(p, g)], s
    t = [chk(gi + beta * si) for gi, si in zip(g, s)]
    if opt['kind'] == 'nes':
      return [chk(pi - lr * chk(gi + beta * ti)) for pi, gi, ti in zip(p, g, t)], t
    return [chk(pi - lr * ti) for pi, ti in zip(p, t)], t

  mu = frac(inst['mu'])
  lam = frac(inst['reg']) if 'reg' in inst else F(0)
  params = [frac(x) for x in inst['init']]
  sstate = [F(0)] * len(params)
  L = len(params)
  for ri, cohort in enumerate(inst['cohorts']):
    acc, nsum = [F(0)] * L, 0
    for c in cohort:
      w, s = list(params), [F(0)] * L
      for bi, batch in enumerate(inst['stream'][c - 1]):
        eta = inst['noise'][ri][c - 1][bi] if 'noise' in inst else 0
        g = [chk(w[l] - F(sum(inst['data'][c - 1][i - 1][l] for i in batch), len(batch)) + eta + mu * (w[l] - params[l]) + lam * w[l]) for l in range(L)]
        w, s = opt_apply(inst['copt'], g, s, w)
      n = len(inst['data'][c - 1])
      acc = [chk(a + n * (p - x)) for a, p, x in zip(acc, params, w)]
      nsum += n
    mean = [chk(a / nsum) for a in acc] if nsum else [F(0)] * L
    params, sstate = opt_apply(inst['sopt'], mean, sstate, params)
  return not big[0]
