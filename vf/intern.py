"""Interning of observed values for relational facts (DESIGN 3.4): exact digests and tolerance classes."""
import hashlib

import numpy as np


def leaves_of(tree):
  import jax  # pylint: disable=g-import-not-at-top
  return [np.asarray(x) for x in jax.tree_util.tree_leaves(tree)]


def digest(tree):
  h = hashlib.sha1()
  for x in leaves_of(tree):
    h.update(str(x.dtype).encode() + str(x.shape).encode() + np.ascontiguousarray(x).tobytes())
  return h.hexdigest()


class Exact:

  def __init__(self):
    self.tab = {}

  def __call__(self, tree):
    return self.tab.setdefault(digest(tree), len(self.tab) + 1)


class Tolerant:
  """Union of values that are allclose; a new value joins the first class whose representative it is close to."""

  def __init__(self, rtol=1e-5, atol=1e-6):
    self.reps = []
    self.rtol, self.atol = rtol, atol

  def __call__(self, tree):
    lv = leaves_of(tree)
    for i, rep in enumerate(self.reps):
      if len(rep) == len(lv) and all(a.shape == b.shape and np.allclose(a.astype(np.float64), b.astype(np.float64), rtol=self.rtol, atol=self.atol, equal_nan=True) for a, b in zip(rep, lv)):
        return i + 1
    self.reps.append(lv)
    return len(self.reps)
