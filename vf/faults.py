"""In-process fault interposer on the OS / library boundary (DESIGN 3.5).

Every *write effect* on a path under the watched directory is (i) a potential crash point (the k-th effect
raises SimCrash before it happens, or a Write lands only a prefix of its data first) and (ii) logged as a trace
event together with a snapshot of the real directory taken right after the effect.  The oracle is always the
real directory, never the wrappers' own bookkeeping.
"""
import builtins
import contextlib
import io
import os


class SimCrash(BaseException):
  """The simulated process kill (BaseException so that `except Exception` in the code cannot swallow it)."""


class SimIOError(OSError):
  """An injected I/O error (C19)."""


class Interposer:
  """Context manager patching tf.io.gfile.{GFile,rename,remove}, builtins.open/io.open and os.{rename,replace,remove,unlink}.

  crash_at: index (0-based) of the write effect at which to crash, or None.
  partial: for a crash at a Write effect, fraction in (0, 1]: that share of the data lands before the crash
     (None: nothing lands); 'last' = all but the last byte.
  fault: 'crash' raises SimCrash, 'ioerror' raises SimIOError (the code may handle it).
  """

  def __init__(self, root, snapshot, log, crash_at=None, partial=None, fault='crash', use_tf=True, name_of=None, crash_pred=None):
    self.root = os.path.abspath(root)
    self.snapshot = snapshot
    self.log = log
    self.crash_at = crash_at
    self.crash_pred = crash_pred   # optional predicate(kind, fields) -> False | True | ('partial', fraction)
    self.partial = partial
    self.fault = fault
    self.n_effects = 0
    self.effect_kinds = []
    self.crashing = False
    self.use_tf = use_tf
    self.name_of = name_of or os.path.basename
    self._saved = []

  # ---- helpers ----
  def watched(self, path):
    try:
      p = os.path.abspath(os.fspath(path))
    except TypeError:
      return False
    return p.startswith(self.root + os.sep)

  def _raise(self):
    self.crashing = True
    if self.fault == 'crash':
      raise SimCrash()
    raise SimIOError(5, 'injected I/O error')

  def effect(self, kind, **fields):
    """Called BEFORE a write effect happens. Returns normally if the effect should proceed."""
    k = self.n_effects
    self.n_effects += 1
    self.effect_kinds.append(kind)
    if self.crash_at is not None and k == self.crash_at and not (kind == 'Write' and self.partial):
      self._raise()
    if self.crash_pred is not None and kind != 'Write':
      if self.crash_pred(kind, fields):
        self._raise()
    return k

  def after(self, kind, **fields):
    ev = {'e': kind}
    ev.update(fields)
    ev['dir'] = self.snapshot()
    self.log.append(ev)

  def event(self, kind, **fields):
    ev = {'e': kind}
    ev.update(fields)
    self.log.append(ev)

  # ---- file proxies ----
  def _wrap_file(self, real, path, writing):
    return _FileProxy(self, real, path, writing)

  def __enter__(self):
    ip = self

    def patch(obj, attr, new):
      self._saved.append((obj, attr, getattr(obj, attr)))
      setattr(obj, attr, new)

    real_open = builtins.open

    def my_open(file, mode='r', *a, **kw):
      if isinstance(file, (str, bytes, os.PathLike)) and ip.watched(file):
        writing = any(c in mode for c in 'wax+')
        if writing:
          ip.effect('Open', name=ip.name_of(file))
          f = real_open(file, mode, *a, **kw)
          ip.after('Open', name=ip.name_of(file), mode=mode)
        else:
          f = real_open(file, mode, *a, **kw)
          ip.event('Read', name=ip.name_of(file))
        return ip._wrap_file(f, file, writing)
      return real_open(file, mode, *a, **kw)

    patch(builtins, 'open', my_open)
    patch(io, 'open', my_open)

    def two(realfn, kind):
      def fn(src, dst, *a, **kw):
        if ip.watched(src) or ip.watched(dst):
          ip.effect(kind, src=ip.name_of(src), dst=ip.name_of(dst))
          r = realfn(src, dst, *a, **kw)
          ip.after('Rename', src=ip.name_of(src), dst=ip.name_of(dst))
          return r
        return realfn(src, dst, *a, **kw)
      return fn

    def one(realfn, kind):
      def fn(p, *a, **kw):
        if ip.watched(p):
          ip.effect(kind, name=ip.name_of(p))
          r = realfn(p, *a, **kw)
          ip.after('Remove', name=ip.name_of(p))
          return r
        return realfn(p, *a, **kw)
      return fn

    patch(os, 'rename', two(os.rename, 'Rename'))
    patch(os, 'replace', two(os.replace, 'Rename'))
    patch(os, 'remove', one(os.remove, 'Remove'))
    patch(os, 'unlink', one(os.unlink, 'Remove'))

    if self.use_tf:
      import tensorflow as tf  # pylint: disable=g-import-not-at-top
      gf = tf.io.gfile
      RealGFile = gf.GFile

      class GFileProxy:  # pylint: disable=invalid-name

        def __init__(self, name, mode='r'):
          self._watched = ip.watched(name)
          self._writing = self._watched and any(c in mode for c in 'wa+')
          self._path = name
          self._closed = False
          if self._writing:
            ip.effect('Open', name=ip.name_of(name))
          self._real = RealGFile(name, mode)
          if self._writing:
            self._real.write(b'' if 'b' in mode else '')  # GFile creates/truncates lazily; force the effect now
            self._real.flush()
            ip.after('Open', name=ip.name_of(name), mode=mode)
          elif self._watched:
            ip.event('Read', name=ip.name_of(name))

        def write(self, data):
          if not self._writing:
            return self._real.write(data)
          return _do_write(ip, self._real, self._path, data)

        def close(self):
          if self._closed:
            return
          self._closed = True
          if self._writing and not ip.crashing:
            try:
              ip.effect('Close', name=ip.name_of(self._path))
            except BaseException:
              self._real.close()  # the OS closes the descriptor of a dead process
              raise
            self._real.close()
            ip.after('Close', name=ip.name_of(self._path))
          else:
            self._real.close()

        def __enter__(self):
          return self

        def __exit__(self, *exc):
          self.close()
          return False

        def __iter__(self):
          return iter(self._real)

        def __getattr__(self, a):
          return getattr(self._real, a)

      patch(gf, 'GFile', GFileProxy)
      patch(gf, 'rename', two(gf.rename, 'Rename'))
      patch(gf, 'remove', one(gf.remove, 'Remove'))
    return self

  def __exit__(self, *exc):
    for obj, attr, old in reversed(self._saved):
      setattr(obj, attr, old)
    self._saved = []
    return False


def _do_write(ip, real, path, data):
  k = ip.n_effects
  ip.n_effects += 1
  ip.effect_kinds.append('Write')
  hit = ip.crash_at is not None and k == ip.crash_at
  part = ip.partial
  if ip.crash_pred is not None and not hit:
    verdict = ip.crash_pred('Write', {'name': ip.name_of(path)})
    if verdict:
      hit = True
      part = verdict[1] if isinstance(verdict, tuple) else None
  if hit:
    if part:
      ip.partial = part
    if part:
      n = len(data)
      m = n - 1 if ip.partial == 'last' else int(n * ip.partial)
      m = max(0, min(n - 1, m))
      if m > 0:
        real.write(data[:m])
        real.flush()
        ip.after('Write', name=ip.name_of(path), n=m, partial=True)
    ip._raise()  # pylint: disable=protected-access
  r = real.write(data)
  real.flush()
  ip.after('Write', name=ip.name_of(path), n=len(data), partial=False)
  return r


class _FileProxy:
  """Proxy around a builtin file object opened on a watched path."""

  def __init__(self, ip, real, path, writing):
    self._ip = ip
    self._real = real
    self._path = path
    self._writing = writing
    self._closed = False

  def write(self, data):
    if not self._writing:
      return self._real.write(data)
    return _do_write(self._ip, self._real, self._path, data)

  def close(self):
    if self._closed:
      return
    self._closed = True
    if self._writing and not self._ip.crashing:
      try:
        self._ip.effect('Close', name=self._ip.name_of(self._path))
      except BaseException:
        self._real.close()
        raise
      self._real.close()
      self._ip.after('Close', name=self._ip.name_of(self._path))
    else:
      self._real.close()

  def __enter__(self):
    return self

  def __exit__(self, *exc):
    self.close()
    return False

  def __iter__(self):
    return iter(self._real)

  def __getattr__(self, a):
    return getattr(self._real, a)
