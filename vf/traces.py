"""Batched trace validation (leg T): hands a list of recorded traces to TLC and returns one verdict per trace."""
import json
import os

from vf.core import Machinery


class Verdict:
  __slots__ = ('ok', 'kind', 'inv', 'at', 'state', 'event')

  def __init__(self, ok=True, kind='accepted', inv=None, at=None, state=None, event=None):
    self.ok, self.kind, self.inv, self.at, self.state, self.event = ok, kind, inv, at, state, event

  def __repr__(self):
    return f'Verdict({self.kind}, inv={self.inv}, at={self.at}, event={self.event})'


def validate_batch(ctx, module, traces, constants, tag, constraints=('Verdicts',), invariants=(), extra_env=None,
                   strip=('meta',), dfs=False, timeout=3600):
  """Validates `traces` (list of dicts with 'events') against spec/<module>.tla.

  Returns (verdicts, TlcResult). A verdict is 'accepted', 'violated' (an invariant of the specification failed
  at position `at`, i.e. after event number at-1) or 'rejected' (event number `at` matched no action).
  """
  if not traces:
    return [], None
  path = os.path.join(ctx.scratch, f'traces_{tag}.json')
  with open(path, 'w') as f:
    json.dump([{k: v for k, v in t.items() if k not in strip} for t in traces], f)
  env = {'TRACE_FILE': path}
  env.update(extra_env or {})
  r = ctx.tlc(module, name=f'{module}_{tag}', constants=constants, init='TraceInit', next_='TraceNext',
              invariants=list(invariants), constraints=list(constraints), postcondition='Report', workers=1,
              coverage=False, env=env, dfs=dfs, timeout=timeout)
  if r.violated:
    raise Machinery(f'{module}_{tag}: unexpected TLC error {r.violated} during trace validation')
  verdicts = [Verdict() for _ in traces]
  seen = False
  for j in r.json:
    if 'reached' in j:
      seen = True
    elif 'violated' in j:
      t = traces[j['violated'] - 1]
      at = j['at']
      ev = t['events'][at - 2] if 2 <= at <= len(t['events']) + 1 else {'e': 'Init'}
      verdicts[j['violated'] - 1] = Verdict(False, 'violated', j['inv'], at - 1, j.get('state'), ev)
    elif 'stuck' in j:
      t = traces[j['stuck'] - 1]
      at = j['at']
      verdicts[j['stuck'] - 1] = Verdict(False, 'rejected', None, at, j.get('state'), t['events'][at - 1])
  if not seen:
    raise Machinery(f'{module}_{tag}: trace validation did not report')
  ctx.trace_ok(sum(1 for v in verdicts if v.ok))
  return verdicts, r


def short(ev):
  return {k: v for k, v in ev.items() if k not in ('dir',)}
