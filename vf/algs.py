"""Constructors of the built-in federated algorithms on the exact-island problem (used by C10, C12, C17)."""
import numpy as np

from vf import island


def grad_fn(fedjax, loss=None, regularizer=None):
  from fedjax.core import models  # pylint: disable=g-import-not-at-top
  return models.grad(loss or island.per_example_loss, regularizer)


def build(fedjax, name, case, copt=None, sopt=None, loss=None, **kw):
  """Returns (algorithm, init_fn(params_tree) -> state, params_of(state) -> list of floats)."""
  A = fedjax.algorithms
  inst = case['inst']
  hp = island.hparams(fedjax, case['h'])
  copt = copt or island.make_opt(fedjax, inst['copt'])
  sopt = sopt or island.make_opt(fedjax, inst['sopt'])
  loss = loss or island.per_example_loss
  pad = fedjax.PaddedBatchHParams(batch_size=kw.get('pad_bs', 3), num_batch_size_buckets=kw.get('buckets', 2))
  plist = island.params_list
  reg = None
  if kw.get('reg'):
    import jax  # pylint: disable=g-import-not-at-top
    import jax.numpy as jnp  # pylint: disable=g-import-not-at-top
    lam = float(kw['reg'])
    reg = lambda p: 0.5 * lam * sum(jnp.sum(x ** 2) for x in jax.tree_util.tree_leaves(p))   # L2: lambda/2 |w|^2
  if name == 'fed_avg':
    alg = A.fed_avg.federated_averaging(grad_fn(fedjax, loss, reg), copt, sopt, hp)
    return alg, alg.init, lambda s: plist(s.params)
  if name == 'fed_prox':
    alg = A.fed_prox.fed_prox(loss, copt, sopt, hp, proximal_weight=kw.get('mu', 0.0))
    return alg, alg.init, lambda s: plist(s.params)
  if name == 'mime_lite':
    alg = A.mime_lite.mime_lite(loss, kw.get('base', copt), hp, pad, server_learning_rate=kw.get('server_lr', 1.0),
                                regularizer=reg, client_delta_clip_norm=kw.get('clip'))
    return alg, alg.init, lambda s: plist(s.params)
  if name == 'mime':
    alg = A.mime.mime(loss, kw.get('base', copt), hp, pad, server_learning_rate=kw.get('server_lr', 1.0), regularizer=reg)
    return alg, alg.init, lambda s: plist(s.params)
  if name == 'hyp_cluster':
    alg = A.hyp_cluster.hyp_cluster(loss, copt, sopt, pad, hp, regularizer=reg)
    k = kw.get('clusters', 1)
    offs = kw.get('offsets', [0.0] * k)

    def init(p):
      import jax  # pylint: disable=g-import-not-at-top
      return alg.init([jax.tree_util.tree_map(lambda x, o=o: x + o, p) for o in offs])

    return alg, init, lambda s: plist(s.cluster_params[0])
  if name == 'apfl':
    from fedjax.algorithms import apfl  # pylint: disable=g-import-not-at-top
    alg = apfl.adaptive_personalized_federated_learning(grad_fn(fedjax, loss), copt, sopt, hp, client_coefficient=kw.get('coef', 0.5))
    return alg, alg.init, lambda s: plist(s.params)
  if name == 'agnostic_fed_avg':
    # the initial weights / window as arrays, as plain lists (the documented Sequence[float]), or the window left to its
    # documented default (ones)
    style = kw.get('init_style', 'arrays')
    weights, window0 = list(kw.get('domain_weights', [0.5, 0.5])), list(kw.get('init_window', [1.0, 1.0]))
    extra = {}
    if style == 'arrays':
      weights, extra = np.array(weights, np.float32), {'init_domain_window': np.array(window0, np.float32)}
    elif style == 'lists' or any(x != 1.0 for x in window0):
      extra = {'init_domain_window': window0}
    alg = A.agnostic_fed_avg.agnostic_federated_averaging(
        loss, copt, sopt, hp, pad, init_domain_weights=weights,
        domain_learning_rate=kw.get('domain_lr', 0.125), domain_algorithm=kw.get('domain_algorithm', 'eg'),
        domain_window_size=kw.get('window', 1), **extra)
    return alg, alg.init, lambda s: plist(s.params)
  raise ValueError(name)


def run_rounds(fedjax, name, case, order='listed', keys_seed=0, domain_of=None, backend=None, typed_keys=False, **kw):
  """Runs inst.rounds rounds; returns dict(rounds=[params...], states=[state...], diag=[...], error)."""
  import jax  # pylint: disable=g-import-not-at-top
  inst = case['inst']
  dss = island.datasets(fedjax, inst['data'])
  if domain_of is not None:
    dss = [fedjax.ClientDataset(dict(d.raw_examples, domain_id=np.array([domain_of(ci, j) for j in range(len(d))], np.int32)))
           for ci, d in enumerate(dss)]
  ids = island.client_ids(len(dss))
  rec = {'rounds': [], 'states': [], 'diag': [], 'error': None}
  try:
    if backend:
      from fedjax.core import for_each_client as fec  # pylint: disable=g-import-not-at-top
      with fec.for_each_client_backend(backend):     # the backend is bound when the algorithm is built
        alg, init, params_of = build(fedjax, name, case, **kw)
    else:
      alg, init, params_of = build(fedjax, name, case, **kw)
    state = init(island.params_tree(inst['init']))
    rec['states'].append(state)
    for r, cohort in enumerate(inst['cohorts']):
      co = list(cohort)
      if order == 'reversed':
        co = co[::-1]
      # client keys are old-style uint32 arrays or new-style typed keys (jax.random.key): the same draws either way
      keys = jax.random.split(jax.random.key(keys_seed + r) if typed_keys else jax.random.PRNGKey(keys_seed + r), len(dss))
      # case['id_alias'] = {spec client: spec client whose ID it goes by}: one real client whose data changed between rounds
      alias = case.get('id_alias') or {}
      clients = [(ids[alias.get(c, c) - 1], dss[c - 1], keys[c - 1]) for c in co]
      state, diag = alg.apply(state, clients)
      rec['rounds'].append(params_of(state))
      rec['states'].append(state)
      rec['diag'].append(diag)
  except Exception as ex:  # pylint: disable=broad-except
    import traceback  # pylint: disable=g-import-not-at-top
    rec['error'] = f'{type(ex).__name__}: {ex}'[:300]
    rec['tb'] = traceback.format_exc()[-1500:]
  return rec
