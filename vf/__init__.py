"""Verification framework for google/fedjax: TLA+ specifications checked by TLC and bound to the code."""
