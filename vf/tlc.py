"""TLC runner: writes a cfg, runs tlc2.TLC, parses statistics, coverage, PrintT output and errors."""
import json
import os
import re
import shutil
import subprocess
import time

SPEC_DIR = os.path.join(os.path.dirname(os.path.dirname(os.path.abspath(__file__))), 'spec')
JAR = '/opt/veriftools/tla/tla2tools.jar'
DEPS = '/opt/veriftools/tla/CommunityModules-deps.jar'


class TlcError(Exception):
  """Machinery failure (parse error, TLC crash) - never a property verdict."""


class TlcResult:

  def __init__(self):
    self.ok = False
    self.generated = 0
    self.distinct = 0
    self.depth = 0
    self.violated = None  # name of violated invariant / property, or 'deadlock'
    self.error_trace = []  # list of state texts
    self.json = []  # decoded JSON payloads printed with the "JSON " prefix
    self.prints = []  # other PrintT lines
    self.actions = {}  # action name -> (distinct, total) from -coverage
    self.wall = 0.0
    self.out = ''
    self.cmd = ''

  def __repr__(self):
    return (f'TlcResult(ok={self.ok}, generated={self.generated}, distinct={self.distinct}, '
            f'violated={self.violated}, json={len(self.json)})')


def tla_value(v):
  """Python value -> TLA+ expression text (ints, bools, strings, lists -> sequences, dicts -> records/functions, sets)."""
  if isinstance(v, bool):
    return 'TRUE' if v else 'FALSE'
  if isinstance(v, int):
    return str(v) if v >= 0 else f'({v})'
  if isinstance(v, str):
    return '"' + v.replace('\\', '\\\\').replace('"', '\\"') + '"'
  if isinstance(v, (list, tuple)):
    return '<<' + ', '.join(tla_value(x) for x in v) + '>>'
  if isinstance(v, (set, frozenset)):
    return '{' + ', '.join(tla_value(x) for x in sorted(v, key=repr)) + '}'
  if isinstance(v, dict):
    if not v:
      return '<<>>'
    if all(isinstance(k, str) and re.fullmatch(r'[A-Za-z_][A-Za-z0-9_]*', k) for k in v):
      return '[' + ', '.join(f'{k} |-> {tla_value(x)}' for k, x in v.items()) + ']'
    return '(' + ' @@ '.join(f'({tla_value(k)} :> {tla_value(x)})' for k, x in v.items()) + ')'
  if v is None:
    return '"None"'
  raise TypeError(f'cannot render {v!r} as TLA+')


class Raw(str):
  """A TLA+ expression passed through verbatim as a constant value."""


def _const_text(v):
  return v if isinstance(v, Raw) else tla_value(v)


_STATS = re.compile(r'(\d+) states generated, (\d+) distinct states found')
_DEPTH = re.compile(r'The depth of the complete state graph search is (\d+)')
_COV = re.compile(r'^<(\w+) line \d+, col \d+ to line \d+, col \d+ of module (\w+)(?: \([\d ]+\))?>: (\d+):(\d+)')
_VIOL = [
    (re.compile(r'Error: Invariant (\S+) is violated'), None),
    (re.compile(r'Error: Action property (\S+) is violated'), None),
    (re.compile(r'Error: Temporal properties were violated'), 'temporal'),
    (re.compile(r'Error: Deadlock reached'), 'deadlock'),
    (re.compile(r'Error: Assumption .*? is false'), 'assumption'),
    (re.compile(r'Error: The postcondition .* is false|Error: Evaluating.*post'), 'postcondition'),
]


def run(module, *, scratch, constants=None, init='Init', next_='Next', spec=None, invariants=(),
        properties=(), constraints=(), action_constraints=(), postcondition=None, view=None,
        symmetry=None, deadlock=False, workers=None, coverage=True, simulate=None, depth=None,
        seed=None, env=None, timeout=3600, extra_modules=None, name=None, expect_violation=False,
        dfs=False):
  """Run TLC on spec/<module>.tla (or a generated wrapper in `extra_modules`: {modname: text}).

  Returns TlcResult. Raises TlcError on machinery failures (parse errors, Java exceptions,
  timeouts). A property violation is NOT an exception: result.violated names it.
  """
  os.makedirs(scratch, exist_ok=True)
  name = name or module
  work = os.path.join(scratch, 'tlc_' + name)
  shutil.rmtree(work, ignore_errors=True)
  os.makedirs(work)
  root = module
  for mod, text in (extra_modules or {}).items():
    with open(os.path.join(work, mod + '.tla'), 'w') as f:
      f.write(text)
  if extra_modules and module in extra_modules:
    root_path = os.path.join(work, module + '.tla')
  else:
    root_path = os.path.join(SPEC_DIR, module + '.tla')
  cfg = []
  if spec:
    cfg.append(f'SPECIFICATION {spec}')
  elif init is not None:
    cfg.append(f'INIT {init}')
    cfg.append(f'NEXT {next_}')
  consts = constants or {}
  if consts:
    cfg.append('CONSTANTS')
    for k, v in consts.items():
      if isinstance(v, Raw) and v.startswith('<-'):
        cfg.append(f'  {k} {v}')
      else:
        cfg.append(f'  {k} = {_cfg_value(v)}')
  for i in invariants:
    cfg.append(f'INVARIANT {i}')
  for p in properties:
    cfg.append(f'PROPERTY {p}')
  for c in constraints:
    cfg.append(f'CONSTRAINT {c}')
  for c in action_constraints:
    cfg.append(f'ACTION_CONSTRAINT {c}')
  if postcondition:
    cfg.append(f'POSTCONDITION {postcondition}')
  if view:
    cfg.append(f'VIEW {view}')
  if symmetry:
    cfg.append(f'SYMMETRY {symmetry}')
  cfg.append(f'CHECK_DEADLOCK {"TRUE" if deadlock else "FALSE"}')
  cfg_path = os.path.join(work, name + '.cfg')
  with open(cfg_path, 'w') as f:
    f.write('\n'.join(cfg) + '\n')
  nworkers = workers or min(16, os.cpu_count() or 1)
  jvm = ['java', '-XX:+UseParallelGC', '-Xmx8g', '-Xss256m', f'-DTLA-Library={SPEC_DIR}']
  if dfs:
    jvm.append('-Dtlc2.tool.queue.IStateQueue=StateDeque')
  cmd = jvm + ['-cp', f'{JAR}:{DEPS}', 'tlc2.TLC', '-workers', str(nworkers), '-metadir',
               os.path.join(work, 'meta'), '-noGenerateSpecTE', '-config', cfg_path]
  if coverage and not simulate:
    cmd += ['-coverage', '1']
  if simulate:
    cmd += ['-simulate', simulate]
  if depth:
    cmd += ['-depth', str(depth)]
  if seed is not None:
    cmd += ['-seed', str(seed)]
  cmd.append(root_path)
  e = dict(os.environ)
  e.update({k: str(v) for k, v in (env or {}).items()})
  t0 = time.time()
  try:
    p = subprocess.run(cmd, cwd=work, env=e, capture_output=True, text=True, timeout=timeout)
  except subprocess.TimeoutExpired as ex:
    raise TlcError(f'TLC timed out after {timeout}s on {name}') from ex
  r = TlcResult()
  r.wall = time.time() - t0
  r.out = p.stdout + p.stderr
  r.cmd = ' '.join(cmd)
  with open(os.path.join(work, 'tlc.out'), 'w') as f:
    f.write(r.out)
  _parse(r)
  if r.violated is None and ('Model checking completed. No error has been found.' in r.out
                             or (simulate and 'Error' not in r.out)):
    r.ok = True
  if not r.ok and r.violated is None:
    tail = '\n'.join(r.out.splitlines()[-40:])
    raise TlcError(f'TLC failed on {name} (exit {p.returncode}):\n{tail}')
  shutil.rmtree(os.path.join(work, 'meta'), ignore_errors=True)
  return r


def _cfg_value(v):
  # cfg files accept only a restricted value syntax: numbers, strings, model values, sets.
  if isinstance(v, Raw):
    return str(v)
  if isinstance(v, bool):
    return 'TRUE' if v else 'FALSE'
  if isinstance(v, int):
    if v < 0:
      raise TlcError('negative constants cannot be given in a cfg; use a wrapper definition')
    return str(v)
  if isinstance(v, str):
    return '"' + v + '"'
  if isinstance(v, (set, frozenset, list, tuple)) and not isinstance(v, (list, tuple)):
    return '{' + ', '.join(_cfg_value(x) for x in sorted(v, key=repr)) + '}'
  raise TlcError(f'constant {v!r} cannot be given in a cfg; use a wrapper module')


def _parse(r):
  lines = r.out.splitlines()
  in_trace = False
  cur = None
  for ln in lines:
    m = _STATS.search(ln)
    if m:
      r.generated, r.distinct = int(m.group(1)), int(m.group(2))
    m = _DEPTH.search(ln)
    if m:
      r.depth = int(m.group(1))
    m = _COV.match(ln)
    if m:
      od, ot = r.actions.get(m.group(1), (0, 0))
      r.actions[m.group(1)] = (od + int(m.group(3)), ot + int(m.group(4)))
    if ln.startswith('"JSON '):
      try:
        s = json.loads(ln)
        r.json.append(json.loads(s[5:]))
      except Exception as ex:  # pylint: disable=broad-except
        raise TlcError(f'cannot decode JSON line from TLC: {ln[:200]}') from ex
      continue
    if ln.startswith('<<"') or ln.startswith('"'):
      r.prints.append(ln)
    for rx, nm in _VIOL:
      m = rx.search(ln)
      if m and r.violated is None:
        r.violated = nm or m.group(1)
    if ln.startswith('State ') and ':' in ln:
      in_trace = True
      cur = []
      r.error_trace.append(cur)
      continue
    if in_trace:
      if ln.strip() == '' or ln.startswith('Finished') or re.match(r'^\d+ states generated', ln):
        if ln.strip() != '':
          in_trace = False
        continue
      if cur is not None:
        cur.append(ln)
  if 'Error:' in r.out and r.violated is None:
    # an evaluation error etc: machinery failure unless classified above
    pass
  r.error_trace = ['\n'.join(s) for s in r.error_trace]


def sany(path):
  p = subprocess.run(['java', f'-DTLA-Library={SPEC_DIR}', '-cp', f'{JAR}:{DEPS}', 'tla2sany.SANY', path],
                     capture_output=True, text=True, cwd=os.path.dirname(path))
  return p.returncode == 0 and 'Semantic errors' not in p.stdout and 'error' not in p.stdout.lower(), p.stdout + p.stderr
