#!/bin/sh
# Offline setup: nothing to build; verify the tools the checks need are present.
set -e
cd "$(dirname "$0")"
command -v java >/dev/null
test -f /opt/veriftools/tla/tla2tools.jar
/venv/bin/python -c "import jax, numpy, fedjax" >/dev/null 2>&1
mkdir -p .scratch evidence
echo setup ok
