#!/venv/bin/python
"""Confirms a seeded change in its scratch worktree and, if confirmed, stores it under /verif/seeded/<id>/.

usage: confirm_seed.py <worktree> <mutant dir> <seed id> [--no-suite]
Confirmed = patch applies to /repo's HEAD, demo passes without it and fails with it, and every test of the stable
baseline (/root/.vp/BASELINE.json stable_pass) still passes with it.
"""
import json
import os
import shutil
import subprocess
import sys
import xml.etree.ElementTree as ET


def sh(cmd, cwd, env=None, timeout=3000):
  e = dict(os.environ)
  e.update(env or {})
  p = subprocess.run(cmd, cwd=cwd, shell=True, capture_output=True, text=True, env=e, timeout=timeout)
  return p.returncode, p.stdout + p.stderr


def main():
  wt, mdir, sid = sys.argv[1:4]
  suite = '--no-suite' not in sys.argv
  head = subprocess.check_output(['git', '-C', '/repo', 'rev-parse', 'HEAD'], text=True).strip()
  env = {'PYTHONPATH': wt, 'JAX_PLATFORMS': 'cpu', 'TF_CPP_MIN_LOG_LEVEL': '3'}
  res = {'repo_head': head}
  sh('git checkout -q -- . && git checkout -q --detach ' + head, wt)
  patch = os.path.join(mdir, 'patch.diff')
  demo = os.path.join(mdir, 'demo.py')
  rc, out = sh(f'/venv/bin/python {demo}', wt, env)
  res['demo_without_patch'] = {'exit': rc, 'tail': out[-300:]}
  rc, out = sh(f'git apply {patch}', wt)
  if rc != 0:
    res['error'] = 'patch does not apply to /repo HEAD: ' + out[-300:]
    print(json.dumps(res, indent=1))
    return 1
  rc, out = sh(f'/venv/bin/python {demo}', wt, env)
  res['demo_with_patch'] = {'exit': rc, 'tail': out[-400:]}
  ok = res['demo_without_patch']['exit'] == 0 and rc != 0
  if suite and ok:
    xml = f'/tmp/wt/_confirm/{sid}.junit.xml'
    os.makedirs('/tmp/wt/_confirm', exist_ok=True)
    sh(f'/venv/bin/python -m pytest -q -p no:cacheprovider --timeout=900 --continue-on-collection-errors '
       f'--junitxml={xml}', wt, env, timeout=3600)
    passed = set()
    for tc in ET.parse(xml).getroot().iter('testcase'):
      if not any(ch.tag in ('failure', 'error', 'skipped') for ch in tc):
        passed.add(f"{tc.get('classname')}::{tc.get('name')}")
    stable = set(json.load(open('/root/.vp/BASELINE.json'))['stable_pass'])
    missing = sorted(stable - passed)
    res['suite'] = {'stable_pass': len(stable), 'still_passing': len(stable & passed), 'broken': missing[:10]}
    ok = ok and not missing
    os.remove(xml)
  sh('git checkout -q -- .', wt)
  res['confirmed'] = ok
  if ok:
    dst = f'/verif/seeded/{sid}'
    os.makedirs(dst, exist_ok=True)
    shutil.copy(patch, dst + '/patch.diff')
    shutil.copy(demo, dst + '/demo.py')
    meta = {}
    try:
      meta = json.load(open(os.path.join(mdir, 'meta.json')))
    except Exception:  # pylint: disable=broad-except
      pass
    meta['confirmation'] = res
    meta['what_was_run'] = ('tools/confirm_seed.py in a scratch worktree at /repo HEAD: demo.py without the patch '
                            '(exit 0), with the patch (exit != 0), full pytest suite with the patch compared with '
                            'BASELINE.json stable_pass')
    json.dump(meta, open(dst + '/meta.json', 'w'), indent=1)
  print(json.dumps(res, indent=1))
  return 0 if ok else 1


if __name__ == '__main__':
  sys.exit(main())
