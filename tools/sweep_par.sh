#!/bin/sh
# tools/sweep_par.sh [tier] [seed] [shards]  - tools/sweep_seeds.sh in parallel shards, merged into seeded/RESULTS.json
tier="${1:-quick}"; seed="${2:-0}"; n="${3:-4}"
cd "$(dirname "$0")/.." || exit 2
mkdir -p /tmp/wt
k=0
while [ $k -lt $n ]; do
  SHARD=$k NSHARDS=$n tools/sweep_seeds.sh "$tier" "$seed" "/tmp/wt/sweep_part$k.json" > "/tmp/wt/sweep_part$k.log" 2>&1 &
  k=$((k + 1))
  sleep 5     # (git worktree add takes a lock on /repo/.git)
done
wait
/venv/bin/python tools/sweep_merge.py "$n"
rm -f /tmp/wt/sweep_part*.json
