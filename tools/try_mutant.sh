#!/bin/sh
# tools/try_mutant.sh <patch.diff> <property id> [tier]  - applies a seeded change to /repo, runs the check, reverts.
patch="$1"; pid="$2"; tier="${3:-quick}"
cd /repo || exit 2
if [ -n "$(git status --porcelain --untracked-files=no)" ]; then echo "/repo is dirty"; exit 2; fi
git apply "$patch" || { echo "patch does not apply"; exit 2; }
cd /verif && ./check "$pid" --tier "$tier" 2>&1 | grep -E "^VIOLATION|^KNOWN-FINDING|^MACHINERY|^\[C|^  [a-zA-Z_:@]+" | cut -c1-400
rc=$?
git -C /repo checkout -- .
exit 0
