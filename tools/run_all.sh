#!/bin/sh
# tools/run_all.sh <tier> <seed> [ids...]  - runs every registered check (or the listed ones, e.g. 01 09) once; one summary line per check
tier="${1:-quick}"; seed="${2:-0}"
[ $# -ge 2 ] && shift 2 || shift $#
ids="${*:-01 02 03 04 05 06 07 08 09 10 11 12 13 14 15 16 17 18 19 20}"
cd "$(dirname "$0")/.." || exit 2
for i in $ids; do
  start=$(date +%s)
  out=$(./check C$i --tier "$tier" --seed "$seed" 2>&1)
  rc=$?
  echo "C$i rc=$rc $(( $(date +%s) - start ))s $(echo "$out" | grep -E '^\[C' | tail -1)"
  echo "$out" | grep -E '^VIOLATION|^KNOWN-FINDING|^MACHINERY' | head -5
  echo "$out" | grep -A1 '^VIOLATION' | grep -v '^VIOLATION\|^--' | cut -c1-300 | head -5
done
