#!/bin/sh
# tools/sweep_seeds.sh [tier] [seed] [output json]  - applies every seeded change to /repo in turn, runs its property's check, reverts.
# Writes /verif/seeded/RESULTS.json  {seed id: {"detected": bool, "keys": [...], "exit": n}}
tier="${1:-quick}"; seed="${2:-0}"; outjson="${3:-seeded/RESULTS.json}"
cd "$(dirname "$0")/.." || exit 2
# works on a scratch worktree of /repo's HEAD (outside /repo and /verif), removed at the end
# SHARD=k NSHARDS=n (optional): only every n-th seeded change, offset k; own worktree and side directory per shard
SHARD="${SHARD:-0}"; NSHARDS="${NSHARDS:-1}"
WT=/tmp/wt/sweep$SHARD
git -C /repo worktree remove --force "$WT" 2>/dev/null
git -C /repo worktree add --detach "$WT" HEAD >/dev/null 2>&1 || { echo "cannot create worktree"; exit 2; }
export FEDJAX_SRC="$WT"
# scratch and evidence of these runs are kept aside (the real evidence files describe the unchanged tree)
export VERIF_SIDE=/tmp/wt/sweep_side$SHARD
rm -rf "$VERIF_SIDE"; mkdir -p "$VERIF_SIDE"
tmp=$(mktemp)
echo "{" > "$tmp"
first=1
# ONLY=<extended regex> (optional): only the seeded changes whose id matches
ONLY="${ONLY:-.}"
idx=0
for d in seeded/C*-m*; do
  echo "$(basename "$d")" | grep -Eq "$ONLY" || continue
  idx=$((idx + 1))
  [ $((idx % NSHARDS)) = "$SHARD" ] || continue
  id=$(basename "$d"); pid=${id%%-*}
  if ! git -C "$WT" apply --check "$PWD/$d/patch.diff" 2>/dev/null; then
    res="{\"detected\": null, \"note\": \"patch does not apply to /repo HEAD\"}"
  else
    git -C "$WT" apply "$PWD/$d/patch.diff"
    out=$(./check "$pid" --tier "$tier" --seed "$seed" 2>&1); rc=$?
    git -C "$WT" checkout -- .
    keys=$(echo "$out" | grep -A1 '^VIOLATION' | grep -v '^VIOLATION\|^--' | sed 's/^  //' | cut -d' ' -f1 | sort -u | head -6 | /venv/bin/python -c "import sys,json; print(json.dumps([l.strip() for l in sys.stdin if l.strip()]))")
    det=false; [ "$rc" = "1" ] && det=true
    res="{\"detected\": $det, \"exit\": $rc, \"keys\": $keys}"
  fi
  [ $first = 1 ] || echo "," >> "$tmp"; first=0
  printf ' "%s": %s' "$id" "$res" >> "$tmp"
  echo "$id $res"
done
echo "" >> "$tmp"; echo "}" >> "$tmp"
mv "$tmp" "$outjson"
git -C /repo worktree remove --force "$WT"
rm -rf "$VERIF_SIDE"
