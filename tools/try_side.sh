#!/bin/sh
# tools/try_side.sh <worktree> <patch.diff> <property id> [tier]
# Runs a check against a seeded change applied in a SCRATCH worktree (not /repo), with scratch and evidence kept aside.
wt="$1"; patch="$2"; pid="$3"; tier="${4:-quick}"
here="$(cd "$(dirname "$0")/.." && pwd)"
git -C "$wt" checkout -q -- . || exit 2
git -C "$wt" apply "$patch" || { echo "patch does not apply"; exit 2; }
side=$(mktemp -d /tmp/wt/side.XXXXXX)
FEDJAX_SRC="$wt" VERIF_SIDE="$side" "$here/check" "$pid" --tier "$tier" 2>&1 | grep -E "^VIOLATION|^KNOWN-FINDING|^MACHINERY|^\[C|^  [a-zA-Z_:@]+" | cut -c1-400
git -C "$wt" checkout -q -- .
rm -rf "$side"
