#!/venv/bin/python
"""Regenerates /verif/MANIFEST.json from the table below (single source of truth for the interface)."""
import json
import os

ROOT = os.path.dirname(os.path.dirname(os.path.abspath(__file__)))
ALL = [f'C{i:02d}' for i in range(1, 21)]

CHECKS = {
    'C01': dict(
        technique='TLA+ spec FedRound.tla (exact rational arithmetic, clients in arbitrary order, accumulators vs. the '
                  'order-free definition) model-checked by TLC; FedRoundOracle computes exact parameters for random '
                  'exact-island instances whose batch streams come from the real batching code; real '
                  'federated_averaging replayed under client orders and jit/debug/pmap backends; keys and non-rational '
                  'optimizers as PureHistory facts judged by TLC',
        text='TLC proves on small instances that, whatever the client order, each round equals the weighted-mean '
             'definition, gives one diagnostics entry per client, leaves the parameters unchanged on an empty round and '
             'never produces NaN, with six skeleton deviations reported; for random instances (sizes 0-6 not divisible '
             'by the batch size, 1-3 rounds, SGD/momentum on client and server) TLC computes the exact rational result '
             'and the real algorithm must reproduce it bit-exactly (dyadic) or to 1e-5 under several listing orders and '
             'all three backends; with a key-using (integer-noise) loss the key of every local step is recorded on the debug '
             'backend (descendant of the client\'s own key, pairwise distinct) and TLC\'s exact parameters for those draws '
             'must be reached by all three backends; the streams must have the documented shape; a fixed instance has a round '
             'without examples after server momentum has built up.',
        note='Exact island: quadratic per-example loss, integer data, dyadic rates; Adam/Adagrad/Yogi/RMSProp only '
             'relationally; zero-example clients with num_epochs=None excluded (no batch stream exists).',
        design='5/C01'),
    'C02': dict(
        technique='TLA+ specs ForEachClient.tla (pmap blockify/mask/yield machine, jit donate machine with buffer table, free '
                  'client program) and BackendChoice.tla (thread-local selection, all interleavings) model-checked by TLC; '
                  'every enumerated profile executed on the real jit/debug/pmap backends (1-8 forced host devices), '
                  'every emitted thread schedule replayed on real threads with a baton; larger random runs validated as '
                  'traces by TLC',
        text='TLC proves exactly-once, equality with the sequential fold, invisibility of padding clients/batches and '
             'liveness of caller buffers for every batch-count profile and device count in the bounds, and thread '
             'isolation / restore-on-exit for every interleaving of two thread programs; each profile is executed on '
             'the real backends with a JAX realisation of the free program whose state carries the consumed tokens and '
             'is poisoned by a padding batch (some profiles call the same for_each_client function three times with the '
             'shared input updated in between; some carry typed PRNG keys as input / batch leaves, some use client ids of '
             'other types); each schedule is executed on real threads.',
        note='Forced host CPU devices stand in for accelerators; buffer donation of the jit backend is a design-level '
             'statement on this platform (caller arrays are inspected after every call).',
        design='5/C02'),
    'C03': dict(
        technique='TLA+ spec SeqBatch.tla (slicing loop + bucket loop) model-checked against declarative definitions; '
                  'every TLC final state replayed into real ClientDataset.batch/padded_batch; random larger real '
                  'runs validated as traces by TLC (SeqBatchTrace.tla)',
        text='TLC proves, for all (N, batch size, buckets, mode, drop) in the bounds, that the algorithmic model equals '
             'the declarative partition/mask/bucket definitions; each of those cases is executed on the real code '
             '(several dtypes, trailing shapes, preprocessor chains incl. in-place mutating ones) and compared '
             'exactly, and larger random real runs are accepted by the specification with all invariants checked; the '
             'bucket rule alone is exhausted for batch sizes up to 33 (48) and 7 buckets; datasets obtained by slicing, '
             'string / complex features, every call style and one-shot preprocessor chains are part of the replay.',
        note='Feature values are compared through the id-decoding projection of the driver; TLC, JVM.',
        design='5/C03'),
    'C04': dict(
        technique='TLA+ spec ShuffleBatch.tla (Refill/Take/Emit) model-checked over all permutations and over the '
                  'hyper-parameter grid; real shuffled streams (sequential, repeated, interleaved iterators) '
                  'validated as traces by TLC (ShuffleBatchTrace.tla), permutations inferred from the stream',
        text='TLC proves windows-are-permutations, balance, cyclic order without shuffling and the documented batch '
             'count (against a declarative restatement) for all small instances; every recorded real stream over much '
             'larger ranges and many seeds must be a behaviour of the specification with the same invariants; every call style (object, keywords, object + overrides incl. None) and NumPy-integer sizes / seeds.',
        note='Which permutation is drawn is left to NumPy; re-shuffling asserted only for N>=8 over >=3 windows.',
        design='5/C04'),
    'C05': dict(
        technique='TLA+ spec EvalFold.tla (evaluation as a fold over layouts: order, cuts, masked padding rows anywhere) '
                  'model-checked by TLC on an abstract bank of statistics and on the bank of every discrete built-in '
                  'metric (single-example statistics computed by TLC from MetricDefs.tla); layouts replayed into '
                  'evaluate_model / evaluate_batch / ModelEvaluator; real Stat monoid laws and cross-entropy metrics as '
                  'PureHistory facts judged by TLC',
        text='TLC proves that every layout folds to the one-by-one merge, the monoid laws and zero-for-empty, with the '
             'mask-after-reduce, unsanitised-merge and skip-leading-padding deviations reported; sampled (quick) / all '
             'bounded (thorough) layouts are executed for every discrete metric class through four entry points with '
             'valid or NaN garbage in padded rows and compared with the TLC rational; all merge groupings of real '
             'statistics (with and without zero) must agree with evaluate_model; all configurations of a metric class '
             'are evaluated on one batch through the jitted path in one process, each against its own statistics; '
             'ModelEvaluator runs on 2 and 3 forced devices over clients with different batch counts, and without jit '
             '(debug backend, disable_jit) over the same cached batches twice; batches and client lists as lists, iterators and generators.',
        note='Cross-entropy metrics only relationally (tolerance classes); banks of <= 4 examples, <= 3 batches of <= 3 rows.',
        design='5/C05'),
    'C06': dict(
        technique='TLA+ spec MaskedLoss.tla (exact rationals; layouts of padded batches built step by step) model-checked '
                  'by TLC against batch-free definitions; emitted layouts replayed into fedjax.grad / model_grad, '
                  'evaluate_average_loss, AverageLossEvaluator, mime and agnostic for_each_client helpers; geometry '
                  'independence of algorithm-derived quantities as PureHistory facts judged by TLC',
        text='TLC proves for every dataset of the bank, parameter, regulariser weight and every layout (order, cuts, masked '
             'rows anywhere with arbitrary content, fully padded batches) that per-batch gradient, average loss, '
             'full-batch gradient and per-domain sums equal their batch-free definitions with the regulariser once '
             '(three deviations reported); the layouts are executed on seven real entry points and compared with the '
             'TLC rationals; agnostic FedAvg domain weights (with and without regulariser), HypCluster assignment and '
             'Mime/MimeLite rounds must not depend on padded batch size / buckets, also for cohorts in which a domain has no example or a client has none; one-pass batch inputs; the packaged l2_regularizer with centres / per-parameter weights, several of equal structure in a row; '
             'agnostic FedAvg\'s newest window row equals the cohort counts also with a zero initial domain weight.',
        note='Exact island: scalar parameter, quadratic loss, L2 regulariser with dyadic weight.',
        design='5/C06'),
    'C07': dict(
        technique='TLA+ specs Aggregation.tla (one-pass fold, donated accumulator, buffer table) and Clip.tla (exact '
                  'rational clipping) model-checked by TLC; emitted cases replayed into tree_sum/tree_mean/'
                  'mean_aggregator/tree_clip_by_global_norm; random trees as PureHistory facts judged by TLC',
        text='TLC proves exact weighted mean, zero-total guard, hull, order independence, caller-buffer liveness, '
             'non-aliasing and the one-pass discipline of the fold for all small inputs and orders, and norm/direction/'
             'identity of clipping on Pythagorean vectors; every emitted case is executed on the real functions with '
             'NumPy and JAX leaves and list/generator/map inputs, comparing the value with the TLC rational and '
             'inspecting every caller array (deleted? changed? aliased?); random trees include clients with different leaf '
             'dtypes in every order; weights of every numeric type; complex leaves in clipping; example counts in narrow integer dtypes whose total overflows the dtype.',
        note='float32 rounding tolerated when the denominator is not a power of two; aliasing observable for JAX '
             'arrays only.',
        design='5/C07'),
    'C08': dict(
        technique='TLA+ spec FedData.tla (views in both the materialised-set and the accumulated-range representation) '
                  'model-checked by TLC; every enumerated history replayed simultaneously into InMemory/SQLite/Subset '
                  'datasets with every view re-observed through all access paths; long random histories validated as '
                  'traces by TLC (FedDataTrace.tla)',
        text='TLC proves that the two view representations the implementations use agree along every history, that '
             'slices never enlarge and parents never change; all histories up to depth 2 (quick) / 3 (thorough) on 4 '
             'corner-case ids are executed on the four real implementations and compared view by view, and random '
             'histories of depth <= 5 on 7 ids (trailing zero bytes, prefixes, extreme bytes; bounds realised by '
             'member and non-member strings) are accepted by the specification; bulk gets name some ids twice.',
        note='Iteration order compared only for determinism; size-preserving client preprocessors; shuffled_clients '
             'not called on empty views.',
        design='5/C08'),
    'C09': dict(
        technique='TLA+ spec Experiment.tla model-checked by TLC (crash at every control state, liveness); real '
                  'run_federated_experiment explored breadth-first over crash-reachable directory states with an '
                  'in-process fault interposer, every incarnation validated as a trace by TLC (ExperimentTrace.tla); crash '
                  'schedules generated by TLC (ExperimentGen.tla, named spec crash points) realised on the real code',
        text='TLC exhausts the crash/restart design for a grid of configurations and proves the C09 invariants and '
             'termination on it; every execution of the real code under every single crash point (and mid-write '
             'prefixes), from every directory state reachable by up to 2 (quick) / 3 (thorough) successive crashes, is '
             'accepted by the specification with all invariants evaluated after every file-system effect; conversely every '
             'crash schedule TLC generates for small configurations (named control states, up to 2 crashes) is driven '
             'into the real code and the directory after each crash and the final result are compared; half of the '
             'configurations use full participation, where only the ORDER of the cohort identifies the round; the harness state carries weakly typed and '
             'low-precision leaves that must come back exactly as in the uninterrupted run.',
        note='In-process crash simulation (BaseException at effect boundaries; written data assumed on disk); '
             'TensorBoard summaries stubbed; harness-supplied deterministic algorithm/eval fns; TLC, JVM.',
        design='5/C09'),
    'C10': dict(
        technique='TLA+ spec Purity.tla enumerates every history tree of apply / re-apply / serialise-restore-continue '
                  '(TLC), with the mutates-input, hidden-state and lossy-round-trip deviations reported; each history '
                  'executed on all seven built-in algorithms and on loops around the compression aggregators; every '
                  'state fingerprinted after every operation; events judged by TLC (PureHistory.tla)',
        text='TLC enumerates all history trees of depth <= 3 (quick) / 4 (thorough) over 3 cohorts (repeated '
             'participation included); for every algorithm the real execution of each history must satisfy Functional '
             '(same state value and cohort give the same new state and diagnostics, also from a pickled or '
             'checkpointed copy, and on a second algorithm object that continues from the restored state) and Immutable (no '
             'existing state changes fingerprint or loses a buffer); FedAvg also runs on haiku-shaped nested parameters with '
             'a freezing server optimizer; the round-1 state is also restored and continued in another interpreter with its '
             'own hash seed; a third of the round trips go through jax.device_get; the compression aggregators are also applied '
             'directly, twice to the same client updates and state (device, host, shared update objects), which must stay '
             'readable and unchanged.',
        note='Bit-identical comparison on the CPU backend; fingerprints include nested container key sets and deleted '
             'buffers; rank >= 1 leaves for the rotation-based aggregators.',
        design='5/C10'),
    'C11': dict(
        technique='TLA+ spec Quantizer.tla: outcome sets and exact probabilities of the stochastic quantizers (rationals, '
                  'the code\'s degenerate branches) and the aggregators\' key discipline as a term algebra, model-checked by '
                  'TLC; every emitted case replayed statistically on 20 000 coordinates against the exact probability; '
                  'aggregators replayed for finiteness, error bound, fresh randomness and bit accounting',
        text='TLC proves E[output] = input, neighbouring grid levels inside [lo, hi] and identity on the grid for every '
             'level count 2..5 and every value on a 1/12 grid (lo = hi included), and that no key is reused across '
             'clients and rounds (two deviations reported); for each case every coordinate of the real quantizer must '
             'lie in the outcome set and the frequency of "ceil" within the Hoeffding radius (delta 1e-12) of the exact '
             'probability; all aggregators are run on constant / zero / size-1 / 1e30-range leaves, for three rounds '
             'with weighted clients and with twin clients; level counts up to 2^16 + 1; the rotation-based aggregators also under the '
             'legacy threefry implementation.',
        note='Unbiasedness of the implementation is established statistically, not symbolically; TernGrad on symmetric '
             'vectors with rational standard deviation.',
        design='5/C11'),
    'C12': dict(
        technique='TLA+ spec FedRound.tla with a proximal weight model-checked by TLC; FedRoundOracle computes the exact '
                  'FedAvg / FedProx(mu) / full-batch-step parameters for random exact-island instances; the real fed_prox, '
                  'hyp_cluster(1), mime_lite(SGD, lr 1), apfl (global model) and mime(SGD, one step) replayed against them',
        text='TLC proves that the proximal variant equals FedAvg on the loss augmented with the penalty toward the round\'s '
             'parameters (penalty toward the initial parameters reported); for random instances with SGD or momentum on '
             'clients and server, repeated participation and 1-3 rounds TLC computes the exact expected parameters and '
             'each real algorithm with its degenerate hyper-parameters must reproduce them round after round; cohorts may '
             'list a client twice; with a key-using loss FedProx and MimeLite(SGD, 1) must reach TLC\'s exact FedAvg values for '
             'the keys FedAvg draws with; FedAvg, HypCluster(1), MimeLite and Mime are also compared with an L2 regulariser; '
             'variants rotate through the jit, debug and pmap backends.',
        note='Exact island as in C01; MimeLite/Mime with plain SGD base as the property states; Mime instances give every '
             'client with examples exactly one local step.',
        design='5/C12'),
    'C13': dict(
        technique='TLA+ spec Sampler.tla (sample / set_round_num / fresh sampler / streaming restart) model-checked by '
                  'TLC; every enumerated history replayed on real samplers (in-memory, SQLite and derived subset / slice views, several '
                  'processes with different hash seeds) and the executions validated by TLC (SamplerTrace.tla)',
        text='TLC enumerates every history of length <= 4 (quick) / 5 (thorough) and proves purity in the round on the '
             'design (with hidden-generator and off-by-one-restart deviations reported); each history plus longer '
             'random ones is executed on the real samplers, in this process and in restarted processes with other '
             'hash seeds, and TLC checks over all executions of a configuration that a round always returns the same '
             'ids/datasets/keys, no repeats, ids from the dataset, keys distinct within and across rounds; a second sampler with another cohort size samples alongside in one execution '
             'per configuration; samplers over datasets built and dropped at reused addresses.',
        note='Outputs compared by content digest; the no-repeat clause applies to the round-indexed sampler only.',
        design='5/C13'),
    'C14': dict(
        technique='TLA+ definitions of every discrete built-in metric (MetricDefs.tla) evaluated by TLC on the full small '
                  'domain (MetricCases.tla) with the documented identities as invariants; the complete case table '
                  'replayed into each metric (vmapped and direct) with exact comparison of statistic and result',
        text='TLC evaluates the definitions on every (metric, constructor arguments, target, score vector) of the small '
             'domain - all ties, masked targets, fully masked sequences, k from -C to C+1, logit masks, per-position '
             'variants - and proves Top1=Accuracy, tie-break to the lowest index, confusion-matrix trace, per-domain '
             'restriction; every table row is executed on the real metric and compared exactly.',
        note='Cross-entropy values use a float64 NumPy log-softmax as numeric leaf; 3 classes, scores 0..2, sequence '
             'length 2 (quick) / 3 (thorough).',
        design='5/C14'),
    'C15': dict(
        technique='TLA+ specs MultiBatch.tla (carry-over buffer machine), BufShuffle.tla (swap machine), RepIter.tla '
                  'model-checked by TLC; MultiBatch final states replayed into padded_batch_client_datasets / '
                  'padded_batch_federated_data; real runs (logging rng, inferred swaps) validated as traces by TLC; '
                  'seed reproducibility as PureHistory facts',
        text='TLC proves concat-preservation, all-but-last-full, bucket padding and mismatch rejection of the buffer '
             'machine for all size sequences in the bounds, exactly-once emission of buffered shuffling for all '
             'permutations/swap indices, and pass equality of the repeatable iterator; each is bound to the code by '
             'exhaustive replay of the emitted cases and by TLC validation of recorded real runs over larger ranges and over '
             'twelve kinds of base iterables (containers, iterators, iterables whose every iter() differs); shuffled clients over in-memory, subset and slice views with buffers longer than '
             'the population.',
        note='A trailing batch with no real row is accepted either way; non-trivial order only for streams >= 10; '
             'empty federated datasets are C08 territory.',
        design='5/C15'),
    'C16': dict(
        technique='TLA+ spec Serialization.tla (decision table of the msgpack extension-type dispatch composed over dict / '
                  'list trees) model-checked by TLC; every enumerated abstract tree instantiated with concrete values of '
                  'all dtypes / layouts / byte orders and round-tripped; SQLite builder -> reader and server-state '
                  'checkpoints round-tripped',
        text='TLC proves on all trees with <= 2 (quick) / 3 (thorough) leaves over 21 leaf kinds that supported trees '
             'round-trip, unsupported ones are rejected and nothing is silently altered (three deviations reported); each '
             'abstract tree is executed with random concrete instantiations and the real outcome (equal / rejected / '
             'altered) must be the specification\'s; datasets written through the SQLite builder are read back twice '
             '(with an in-place edit of the first result in between) and server states through save_state / checkpoints; the builder is fed lists and one-shot iterables and read between '
             'two add_many calls; interleaved reads on one object.',
        note='The TLA+ contribution is the decision table and the compositional enumeration; value equality is the '
             'driver projection (type, dtype name, shape, tolist).',
        design='5/C16'),
    'C17': dict(
        technique='TLA+ spec AlgHistory.tla (sliding-window queue, participants-only state table, own-clusters-only '
                  'updates) model-checked by TLC; multi-round histories of the real agnostic_fed_avg, apfl and '
                  'hyp_cluster validated round by round by TLC (AlgHistoryTrace.tla); MimeLite clipping and '
                  'ignore_grads_haiku as PureHistory facts',
        text='TLC proves the window, key-set and cluster-update invariants for all cohorts / counts / assignments of small '
             'instances (four deviations reported); 4-8 round real histories - including rounds where a domain or a '
             'cluster receives no example - must be behaviours of the specification with the real window, client table, '
             'assignment and changed clusters bound in every round, domain weights on the simplex, coefficients in '
             '[0,1], assignment of minimal loss (independent float64 loss); MimeLite aggregate and per-client norms within '
             'the bound; frozen leaves bit-identical and trainable leaves equal to the base optimizer for four ignored sets; '
             'APFL\'s evaluation function runs between rounds on never-trained clients and must leave the table unchanged; agnostic FedAvg is built from arrays, lists and with the default window, and every '
             'fourth history starts a domain with weight 0; ignore_grads over base optimizers with weight decay.',
        note='Numeric flags (simplex, unit interval, argmin with 1e-4 tie tolerance, norms) are evaluated by the driver and '
             'judged by TLC.',
        design='5/C17'),
    'C18': dict(
        technique='TLA+ spec WalshHadamard.tla (the code\'s shape loop and per-axis einsum vs. the Sylvester closed form '
                  'on every basis vector; rotation identities in integers for every sign vector) model-checked by TLC; '
                  'TLC-emitted Sylvester columns and the cross-checked closed form replayed against the real transform '
                  'for every length / block size; rotation replayed on many shapes, keys, scales and on trees',
        text='TLC proves fast transform = Sylvester matrix for all lengths 2^0..2^5 (2^6 thorough) and block sizes '
             '2^1..2^6 by transforming every basis vector, and norm preservation / invertibility of the rotation for '
             'every sign vector on sizes 1..9; the real transform of the identity (all lengths to 2^9, sparse vectors to '
             '2^12/2^14, block size explicit or defaulted) must equal the Sylvester matrix exactly, twice = n * id, and '
             'the rotation must preserve the norm, be inverted by the same key, differ between keys; trees with tied leaves, tuple / namedtuple / None nodes, host buffers '
             'un-rotated twice, fresh key objects at reused addresses.',
        note='Block sizes giving more than 6 einsum axes are checked on the specification only (XLA:CPU compile time); '
             'rank-0 inputs reported as information.',
        design='5/C18'),
    'C19': dict(
        technique='TLA+ spec Cache.tla model-checked by TLC (kills, torn writes, I/O errors at every step, liveness); '
                  'real maybe_download/maybe_lzma_decompress explored breadth-first over fault-reachable cache '
                  'directories with the fault interposer and a fake network, every call sequence validated as a '
                  'trace by TLC (CacheTrace.tla); TLC-generated named fault schedules (CacheGen.tla) realised on the '
                  'real code with the directory and request count compared after every fault',
        text='TLC exhausts the download/decompress protocol for all small payload sizes with up to 3-4 faults and '
             'proves FinalCompleteOrAbsent, reuse-without-network, stability of complete entries and eventual repair; '
             'every execution of the real functions under every single fault (kill before each effect, kill inside '
             'each write with two prefixes, OSError at each effect, network failure at each block) from every cache '
             'directory reachable by up to 2 (quick) / 3 (thorough) successive faults is accepted by the '
             'specification with the real directory compared after every effect; every fault schedule TLC derives from '
             'the specification (kill, torn write, exception, repeated call; up to 2/3 faults) is realised at the named '
             'control states of the real code and leaves the directory and request count the specification predicts.',
        note='In-process fault simulation; fake requests.get; payload sizes 0 B .. 3 transfer blocks; the CIFAR '
             'SQLite conversion step is modelled out; TLC, JVM.',
        design='5/C19'),
    'C20': dict(
        technique='TLA+ spec Packaged.tla (Shakespeare tokeniser as a sequence function, CIFAR-100 standardisation in exact '
                  'rational form, EMNIST domain rule) model-checked by TLC; emitted tables replayed into the real '
                  'preprocessors; model/dataset id agreement, TensorFlow equivalence of the eval crop, training crops and '
                  'row independence of packaged models as PureHistory facts judged by TLC',
        text='TLC proves the tokeniser invariants (unpadded inputs = label stream, targets shifted by one, labels in '
             'vocabulary, padding only at the end) for all snippet lists in the bounds, unit variance / 1/sqrt(N) floor / '
             'zero for constant images, and the EMNIST ranges for all 10 000 writers; every table row is executed on '
             'the real functions; the ids assumed by the Shakespeare and StackOverflow models must equal the ids their '
             'datasets produce; eval preprocessing must equal tf.image.per_image_standardization of the centre crop '
             'for crop sizes 1..32; each example\'s prediction and loss must not depend on the other rows, nor (StackOverflow) on how far the batch is padded.',
        note='Datasets cannot be downloaded: synthetic inputs; StackOverflow with a small explicit vocabulary; row '
             'independence is relational (tolerance classes).',
        design='5/C20'),
}

NOT_YET = 'check not built yet in this round (planned, see DESIGN.md section 5)'


def main():
  checks = []
  for pid in ALL:
    if pid not in CHECKS:
      continue
    c = CHECKS[pid]
    checks.append({
        'property_id': pid,
        'quick_cmd': f'./check {pid} --tier quick',
        'thorough_cmd': f'./check {pid} --tier thorough',
        'evidence_file': f'/verif/evidence/{pid}.json',
        'replay_cmd_template': f'./check {pid} --replay {{path}}',
        'engine': 'tlc+vf',
        'level_claimed': {'category': 'model_checking', 'text': c['text'], 'design_ref': c['design']},
        'level_note': c['note'],
        'technique': c['technique'],
    })
  m = {
      'version': 1,
      'setup_cmd': 'cd /verif && ./setup.sh',
      'hooks': {
          'guard': 'FEDJAX_VERIF',
          'enable': 'no source hooks are needed: all observation points are public API results, harness-supplied '
                    'objects or the OS/library boundary; ./check sets FEDJAX_VERIF=1 anyway',
          'baseline_off_cmd': 'cd /repo && env -u FEDJAX_VERIF /venv/bin/python -m pytest -ra -q -p no:cacheprovider '
                              '--timeout=900 --continue-on-collection-errors',
          'source_commits': [],
          'add_only': True,
      },
      'engines': [{
          'name': 'tlc+vf',
          'path': '/verif/check',
          'serves_properties': [c['property_id'] for c in checks],
          'kind_free_text': 'TLA+ specifications under /verif/spec checked by TLC; python package /verif/vf drives '
                            'the real fedjax code along spec behaviours and validates recorded traces with TLC',
      }],
      'checks': checks,
      'notes': 'See DESIGN.md. Known findings: /verif/known_findings.json. Seeded mutants: /verif/seeded/.',
      'not_applicable': [{'property_id': p, 'reason': NOT_YET} for p in ALL if p not in CHECKS],
  }
  with open(os.path.join(ROOT, 'MANIFEST.json'), 'w') as f:
    json.dump(m, f, indent=1)
    f.write('\n')


if __name__ == '__main__':
  main()
