#!/venv/bin/python
"""Regenerates /verif/MANIFEST.json from the table below (single source of truth for the interface)."""
import json
import os

ROOT = os.path.dirname(os.path.dirname(os.path.abspath(__file__)))
ALL = [f'C{i:02d}' for i in range(1, 21)]

CHECKS = {
    'C09': dict(
        technique='TLA+ spec Experiment.tla model-checked by TLC (crash at every control state, liveness); real '
                  'run_federated_experiment explored breadth-first over crash-reachable directory states with an '
                  'in-process fault interposer, every incarnation validated as a trace by TLC (ExperimentTrace.tla)',
        text='TLC exhausts the crash/restart design for a grid of configurations and proves the C09 invariants and '
             'termination on it; every execution of the real code under every single crash point (and mid-write '
             'prefixes), from every directory state reachable by up to 2 (quick) / 3 (thorough) successive crashes, is '
             'accepted by the specification with all invariants evaluated after every file-system effect.',
        note='In-process crash simulation (BaseException at effect boundaries; written data assumed on disk); '
             'TensorBoard summaries stubbed; harness-supplied deterministic algorithm/eval fns; TLC, JVM.',
        design='5/C09'),
    'C19': dict(
        technique='TLA+ spec Cache.tla model-checked by TLC (kills, torn writes, I/O errors at every step, liveness); '
                  'real maybe_download/maybe_lzma_decompress explored breadth-first over fault-reachable cache '
                  'directories with the fault interposer and a fake network, every call sequence validated as a '
                  'trace by TLC (CacheTrace.tla)',
        text='TLC exhausts the download/decompress protocol for all small payload sizes with up to 3-4 faults and '
             'proves FinalCompleteOrAbsent, reuse-without-network, stability of complete entries and eventual repair; '
             'every execution of the real functions under every single fault (kill before each effect, kill inside '
             'each write with two prefixes, OSError at each effect, network failure at each block) from every cache '
             'directory reachable by up to 2 (quick) / 3 (thorough) successive faults is accepted by the '
             'specification with the real directory compared after every effect.',
        note='In-process fault simulation; fake requests.get; payload sizes 0 B .. 3 transfer blocks; the CIFAR '
             'SQLite conversion step is modelled out; TLC, JVM.',
        design='5/C19'),
}

NOT_YET = 'check not built yet in this round (planned, see DESIGN.md section 5)'


def main():
  checks = []
  for pid in ALL:
    if pid not in CHECKS:
      continue
    c = CHECKS[pid]
    checks.append({
        'property_id': pid,
        'quick_cmd': f'./check {pid} --tier quick',
        'thorough_cmd': f'./check {pid} --tier thorough',
        'evidence_file': f'/verif/evidence/{pid}.json',
        'replay_cmd_template': f'./check {pid} --replay {{path}}',
        'engine': 'tlc+vf',
        'level_claimed': {'category': 'model_checking', 'text': c['text'], 'design_ref': c['design']},
        'level_note': c['note'],
        'technique': c['technique'],
    })
  m = {
      'version': 1,
      'setup_cmd': 'cd /verif && ./setup.sh',
      'hooks': {
          'guard': 'FEDJAX_VERIF',
          'enable': 'no source hooks are needed: all observation points are public API results, harness-supplied '
                    'objects or the OS/library boundary; ./check sets FEDJAX_VERIF=1 anyway',
          'baseline_off_cmd': 'cd /repo && env -u FEDJAX_VERIF /venv/bin/python -m pytest -ra -q -p no:cacheprovider '
                              '--timeout=900 --continue-on-collection-errors',
          'source_commits': [],
          'add_only': True,
      },
      'engines': [{
          'name': 'tlc+vf',
          'path': '/verif/check',
          'serves_properties': [c['property_id'] for c in checks],
          'kind_free_text': 'TLA+ specifications under /verif/spec checked by TLC; python package /verif/vf drives '
                            'the real fedjax code along spec behaviours and validates recorded traces with TLC',
      }],
      'checks': checks,
      'notes': 'See DESIGN.md. Known findings: /verif/known_findings.json. Seeded mutants: /verif/seeded/.',
      'not_applicable': [{'property_id': p, 'reason': NOT_YET} for p in ALL if p not in CHECKS],
  }
  with open(os.path.join(ROOT, 'MANIFEST.json'), 'w') as f:
    json.dump(m, f, indent=1)
    f.write('\n')


if __name__ == '__main__':
  main()
