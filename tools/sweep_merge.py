"""Merges the per-shard results of tools/sweep_par.sh into seeded/RESULTS.json."""
import json
import sys

out = {}
for k in range(int(sys.argv[1])):
  out.update(json.load(open(f'/tmp/wt/sweep_part{k}.json')))


def order(kv):
  pid, m = kv[0].split('-m')
  return pid, int(m)


json.dump(dict(sorted(out.items(), key=order)), open('seeded/RESULTS.json', 'w'), indent=1)
bad = [k for k, v in out.items() if not v.get('detected')]
print(len(out), 'seeded changes;', len(out) - len(bad), 'detected; not detected:', bad)
