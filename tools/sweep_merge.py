"""Merges the per-shard results of tools/sweep_par.sh into seeded/RESULTS.json (or OUT; with ONLY set, into the existing file)."""
import json
import sys

import os
target = os.environ.get('OUT', 'seeded/RESULTS.json')
out = {}
if os.environ.get('ONLY') and os.path.exists(target):
  out = json.load(open(target))       # a partial sweep updates the entries it re-ran
for k in range(int(sys.argv[1])):
  out.update(json.load(open(f'/tmp/wt/sweep_part{k}.json')))


def order(kv):
  pid, m = kv[0].split('-m')
  return pid, int(m)


json.dump(dict(sorted(out.items(), key=order)), open(target, 'w'), indent=1)
bad = [k for k, v in out.items() if not v.get('detected')]
print(len(out), 'seeded changes;', len(out) - len(bad), 'detected; not detected:', bad)
